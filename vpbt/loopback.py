"""Minimal raw HTTP/1.1 server on 127.0.0.1 for the thorough tiers: real sockets, real httpx
connection handling, chunked transfer encoding with arbitrary segmentation (the harness decides
where each TCP write ends, including inside UTF-8 characters and between CR and LF)."""
from __future__ import annotations

import asyncio
from typing import Any, Awaitable, Callable, Dict, List, Optional, Tuple


class Reply:
    def __init__(self, status: int = 200, headers: Optional[Dict[str, str]] = None, body: bytes = b"",
                 segments: Optional[List[bytes]] = None, stream: Optional[Callable[["StreamWriter"], Awaitable[None]]] = None,
                 delay: float = 0.0) -> None:
        self.status = status
        self.headers = headers or {}
        self.body = body
        self.segments = segments  # body written as these TCP segments (chunked encoding), small sleep between
        self.stream = stream  # live stream: coroutine that writes chunks until it returns
        self.delay = delay  # wait before answering


class StreamWriter:
    def __init__(self, writer: asyncio.StreamWriter) -> None:
        self._w = writer
        self.closed = False

    async def send(self, data: bytes) -> None:
        """one HTTP chunk == one TCP write"""
        if self.closed or not data:
            return
        try:
            self._w.write(hex(len(data))[2:].encode() + b"\r\n" + data + b"\r\n")
            await self._w.drain()
        except (ConnectionError, RuntimeError):
            self.closed = True


class RawHTTPServer:
    def __init__(self, handler: Callable[[str, str, Dict[str, str], bytes], Awaitable[Reply]]) -> None:
        self.handler = handler
        self.server: Optional[asyncio.AbstractServer] = None
        self.port = 0
        self.requests: List[Tuple[str, str, Dict[str, str], bytes]] = []
        self._conns: List[asyncio.StreamWriter] = []

    async def __aenter__(self) -> "RawHTTPServer":
        self.server = await asyncio.start_server(self._serve, "127.0.0.1", 0)
        self.port = self.server.sockets[0].getsockname()[1]
        return self

    async def __aexit__(self, *a: Any) -> None:
        assert self.server is not None
        self.server.close()
        for w in self._conns:
            try:
                w.close()
            except Exception:
                pass
        try:
            await asyncio.wait_for(self.server.wait_closed(), 2)
        except Exception:
            pass

    @property
    def url(self) -> str:
        return f"http://127.0.0.1:{self.port}"

    async def _serve(self, reader: asyncio.StreamReader, writer: asyncio.StreamWriter) -> None:
        self._conns.append(writer)
        try:
            while True:
                line = await reader.readline()
                if not line:
                    return
                parts = line.decode("latin-1").split()
                if len(parts) < 2:
                    return
                method, path = parts[0], parts[1]
                headers: Dict[str, str] = {}
                while True:
                    h = await reader.readline()
                    if h in (b"\r\n", b"\n", b""):
                        break
                    k, _, v = h.decode("latin-1").partition(":")
                    headers[k.strip().lower()] = v.strip()
                body = b""
                n = int(headers.get("content-length", "0") or 0)
                if n:
                    body = await reader.readexactly(n)
                self.requests.append((method, path, headers, body))
                rep = await self.handler(method, path, headers, body)
                if rep.delay:
                    await asyncio.sleep(rep.delay)
                head = f"HTTP/1.1 {rep.status} X\r\n"
                hdrs = dict(rep.headers)
                if rep.stream is not None or rep.segments is not None:
                    hdrs["transfer-encoding"] = "chunked"
                else:
                    hdrs["content-length"] = str(len(rep.body))
                for k, v in hdrs.items():
                    head += f"{k}: {v}\r\n"
                writer.write(head.encode("latin-1") + b"\r\n")
                await writer.drain()
                if rep.stream is not None:
                    sw = StreamWriter(writer)
                    await rep.stream(sw)
                    if not sw.closed:
                        writer.write(b"0\r\n\r\n")
                        await writer.drain()
                    return
                if rep.segments is not None:
                    sw = StreamWriter(writer)
                    for seg in rep.segments:
                        await sw.send(seg)
                        await asyncio.sleep(0.002)
                    writer.write(b"0\r\n\r\n")
                    await writer.drain()
                else:
                    writer.write(rep.body)
                    await writer.drain()
        except (ConnectionError, asyncio.IncompleteReadError, asyncio.CancelledError):
            pass
        finally:
            try:
                writer.close()
            except Exception:
                pass
