"""C08 - server dispatch: one response per request, none per notification, never a crash."""
from __future__ import annotations

import json
from typing import Any, Dict, List, Optional

from hypothesis import strategies as st

from ..jsongen import json_objects, json_text, json_values
from ..jsonrpc_ref import classify, first_diff, strict_eq
from ..runner import Collector, Outcome, hyp_run, hyp_shrink
from ..vclock import run_virtual

ID = "C08"
LEVEL = "exploration"
RULE = (
    "case = (server program: MCPServer with 0..3 tools / 0..2 resources whose handlers return str/dict/list/int/None/non-JSON object, raise, or reject arguments, "
    "plus custom register_method handlers that answer or raise; message: request (id 0 / negative / big / '' / digit string / text) or notification, method over "
    "core methods, registered tool/resource methods, every notifications/* name of MessageMethod, random strings; params missing / {} / wrong types / arguments:null / "
    "unknown or non-string names), built three ways (specific class, unified class, parse_message); oracle: never raises, exactly one grammar-valid response with the "
    "request's id and the documented error code, none for notifications, response line re-parses to itself; non-trivial = a notification other than notifications/initialized, "
    "or a raising / non-string-returning handler, or id in {0, '', negative}; distinct = distinct case"
    "; round 8: clientInfo of any JSON shape at initialize followed by session-bound messages; dozens of failing tool calls accumulating on one server instance"
    "; added in rounds 6-7 of the seeded changes: 2..4 messages in flight on one server incl. the same id on two connections; 64 (exception type, text) pairs; 44 colliding argument names"
)
ASSUMPTIONS = [
    "well-formed incoming request = a message the library's own constructors/parser accept (string method, id string or integer)",
    "for a tool/resource name that is a list or object either -32602 or -32603 is accepted; empty-string method: -32600 or -32601",
    "arguments:null or arguments of a wrong type for the handler count as 'handler raises' (-32603) or invalid params (-32602)",
    "a custom register_method handler that returns no response for a request violates the handler contract (pinned by the suite) and is excluded for requests; it is still exercised with notifications",
]
EXHAUSTIVE = {"quick": False, "thorough": False}
META = {
    "text": "Generated (server program, message) pairs dispatched through MCPServer/ProtocolHandler.handle_message; the oracle is the JSON-RPC grammar plus the documented code per situation; all standard notification names are enumerated from MessageMethod.",
    "technique": "Hypothesis over (server program, message) + enumeration of notification names; oracle = independent JSON-RPC grammar and documented error codes",
}

ARG_NAMES = ["self", "cls", "func", "fn", "f", "label", "name", "handler", "args", "kwargs", "message", "msg", "session_id", "tool_name", "tool", "arguments", "timeout", "callback", "key", "value",
             "ctx", "context", "request", "params", "method", "id", "uri", "type", "data", "result", "error", "start", "loop", "task", "coro", "kind", "k", "kw", "x", "_", "__class__", "class", "def", "é"]
HANDLER_KINDS = ["str", "dict", "list", "int", "none", "object", "raise_value", "raise_runtime", "raise_key", "needs_arg", "nested_bad_json", "slow_str", "raise_slow",
                 "raise_code_int", "raise_code_str", "raise_code_none", "raise_code_callable", "raise_code_jsonrpc"]


# what an exception may say: nothing at all, several lines, format-string look-alikes, non-ASCII, a lot
EXC_TEXTS = ["", "\n", "line one\nline two\n  File \"x.py\", line 3", "%s %d %(x)s {0} {x} {", "caf\u00e9 \u2028 \U0001F600", "x" * 5000, " ", "\x00\x1b[31m"]


def texted_exception(kind: str) -> BaseException:
    """raise_msg_<i>: exception number i of a fixed list of (type, text) pairs - `raise RuntimeError()`, a bare assert, a
    timeout of the handler's own I/O, a KeyError (whose str() is the repr of its key) ..."""
    import asyncio as _a

    i = int(kind.rsplit("_", 1)[1])
    text = EXC_TEXTS[i % len(EXC_TEXTS)]
    types = [RuntimeError, ValueError, _a.TimeoutError, AssertionError, LookupError, OSError, KeyError, Exception]
    t = types[(i // len(EXC_TEXTS)) % len(types)]
    return t() if text == "" and (i // len(EXC_TEXTS)) % 2 == 0 else t(text)


N_EXC = 8 * 8
RAISE_MSG_KINDS = [f"raise_msg_{i}" for i in range(N_EXC)]


def foreign_exception(which: str) -> Exception:
    """exceptions of other libraries that happen to carry a `code` (HTTP clients, database drivers, RPC stubs): to the
    dispatcher they are handler failures like any other"""
    class Foreign(Exception):
        pass

    e = Foreign("upstream said no")
    if which == "int":
        e.code = 404  # type: ignore[attr-defined]
    elif which == "str":
        e.code = "e3q8"  # type: ignore[attr-defined]
    elif which == "none":
        e.code = None  # type: ignore[attr-defined]
    elif which == "callable":
        e.code = lambda: 5  # type: ignore[attr-defined]
    else:
        e.code = -32602  # type: ignore[attr-defined]
        e.data = {"x": {1, 2}}  # type: ignore[attr-defined]
    return e


def make_tool(kind: str):
    async def h(**kw):
        if kind == "str":
            return "ok é\n"
        if kind == "dict":
            return {"a": 1, "n": None}
        if kind == "list":
            return ["x", {"y": 2}, 3]
        if kind == "int":
            return 7
        if kind == "none":
            return None
        if kind == "object":
            return object()
        if kind == "raise_value":
            raise ValueError("bad value")
        if kind == "raise_runtime":
            raise RuntimeError("boom")
        if kind == "raise_key":
            raise KeyError("k")
        if kind.startswith("raise_code_"):
            raise foreign_exception(kind[len("raise_code_"):])
        if kind.startswith("raise_msg_"):
            raise texted_exception(kind)
        if kind == "nested_bad_json":
            return {"s": {1, 2}}
        if kind == "slow_str":
            import asyncio as _a

            await _a.sleep(0.02)
            return "slow ok"
        if kind == "raise_slow":
            import asyncio as _a

            await _a.sleep(0.02)
            raise RuntimeError("slow boom")
        raise AssertionError(kind)

    async def needs(x: int):
        return str(x + 1)

    return needs if kind == "needs_arg" else h


def make_resource(kind: str):
    async def h():
        if kind in ("slow_str", "raise_slow"):
            import asyncio as _a

            await _a.sleep(0.02)
            if kind == "slow_str":
                return "slow content"
        if kind.startswith("raise_msg_"):
            raise texted_exception(kind)
        if kind.startswith("raise"):
            raise RuntimeError("resource boom")
        if kind == "none":
            return None
        if kind == "object":
            return object()
        return "content é"

    return h


def notification_names() -> List[str]:
    from chuk_mcp.protocol.messages.message_method import MessageMethod

    out = []
    for m in MessageMethod:
        v = m.value if hasattr(m, "value") else str(m)
        if isinstance(v, str) and v.startswith("notifications/"):
            out.append(v)
    return sorted(set(out))


def build_server(prog: Dict[str, Any]):
    from chuk_mcp.server.server import MCPServer

    srv = MCPServer("t", "1.0")
    for i, k in enumerate(prog.get("tools", [])):
        srv.register_tool(f"tool{i}", make_tool(k), {"type": "object", "properties": {}}, f"tool {i}")
    for i, k in enumerate(prog.get("resources", [])):
        srv.register_resource(f"file:///r{i}", make_resource(k), name=f"r{i}")
    for name, k in prog.get("custom", []):
        ph = srv.protocol_handler

        def mk(k=k):
            async def handler(message, session_id):
                if k == "raise":
                    raise RuntimeError("custom boom")
                if k.startswith("raise_code_"):
                    raise foreign_exception(k[len("raise_code_"):])
                if k.startswith("raise_msg_"):
                    raise texted_exception(k)
                if k == "slow_answer":
                    import asyncio as _a

                    await _a.sleep(0.02)
                    return ph.create_response(getattr(message, "id", None), {"custom": "slow"}), None
                if k == "raise_slow":
                    import asyncio as _a

                    await _a.sleep(0.02)
                    raise RuntimeError("custom slow boom")
                if k == "answer":
                    mid = getattr(message, "id", None)
                    if mid is None:
                        return None, None
                    return ph.create_response(mid, {"custom": True}), None
                if k == "answer_always":
                    # a handler written for requests that is also hit by a notification
                    return ph.create_response(getattr(message, "id", None), {"custom": True}), None
                return None, None

            return handler

        srv.protocol_handler.register_method(name, mk())
    return srv


def build_message(case: Dict[str, Any]):
    from chuk_mcp.protocol.messages.json_rpc_message import JSONRPCMessage, JSONRPCNotification, JSONRPCRequest, parse_message

    wire: Dict[str, Any] = {"jsonrpc": "2.0", "method": case["method"]}
    if "id" in case:
        wire["id"] = case["id"]
    if case.get("params", "$absent") != "$absent":
        wire["params"] = case["params"]
    how = case.get("how", "parse")
    if how == "parse":
        return wire, parse_message(wire)
    if how == "unified":
        return wire, JSONRPCMessage(**wire)
    if "id" in wire:
        return wire, JSONRPCRequest(**wire)
    return wire, JSONRPCNotification(**wire)


def check_life(case: Dict[str, Any]) -> Outcome:
    """a long-lived connection: initialize, then hundreds of messages bearing the session id with gaps of hours in
    between (controlled clock).  Every request gets exactly one response with its id and dispatch never raises -
    however old the session has become in the meantime."""
    import chuk_mcp.server.session.memory as memmod

    from ..vclock import run_virtual

    out = Outcome(nontrivial=True, classes=("long-life",))

    class Clock:
        now = 1_000_000.0

        def time(self):
            return self.now

    clock = Clock()
    real = memmod.time
    memmod.time = clock  # type: ignore
    try:
        srv = build_server({"tools": ["str", "raise_runtime"], "resources": ["str"], "custom": []})
        ph = srv.protocol_handler
        from chuk_mcp.protocol.messages.json_rpc_message import parse_message

        async def go():
            resp, sid = await ph.handle_message(parse_message({"jsonrpc": "2.0", "id": "i", "method": "initialize", "params": {"protocolVersion": "2025-06-18", "capabilities": {}, "clientInfo": case.get("client_info", {"name": "c", "version": "1"})}}))
            sids = [sid]
            for k in range(case["n"]):
                if k % case["gap_every"] == 0:
                    clock.now += case["gaps"][(k // case["gap_every"]) % len(case["gaps"])]
                if k % 50 == 49:
                    r2, s2 = await ph.handle_message(parse_message({"jsonrpc": "2.0", "id": f"i{k}", "method": "initialize", "params": {"protocolVersion": "2025-03-26", "capabilities": {}, "clientInfo": {"name": "c2", "version": "1"}}}))
                    sids.append(s2)
                use = sids[k % len(sids)]
                kind = k % 4
                if kind == 3:
                    wire = {"jsonrpc": "2.0", "method": "notifications/cancelled", "params": {"requestId": "x"}}
                else:
                    wire = {"jsonrpc": "2.0", "id": k, "method": ["ping", "tools/list", "tools/call"][kind], "params": {"name": "tool0", "arguments": {}} if kind == 2 else {}}
                    if kind == 2 and case.get("failing") and (k // 4) % case["failing"] == 0:
                        # calls that fail (the tool raises; arguments null / not an object) among calls that succeed
                        wire["params"] = [{"name": "tool1", "arguments": {}}, {"name": "tool0", "arguments": None}, {"name": "tool0", "arguments": [1]}, {"name": "tool1"}][(k // 4) % 4]
                try:
                    resp, _sid = await ph.handle_message(parse_message(wire), use)
                except Exception as e:  # noqa
                    out.fail("dispatch-raised-on-request" if "id" in wire else "dispatch-raised-on-notification", f"message {k} ({wire.get('method')}) with the id of a session idle for up to {max(case['gaps'])}s: {type(e).__name__}: {e}")
                    return
                if "id" in wire:
                    w = json.loads(resp.model_dump_json(exclude_none=True)) if resp is not None else None
                    if w is None or not strict_eq(w.get("id"), k) or classify(w)[0] not in ("result", "error"):
                        out.fail("request-not-answered", f"message {k}: {w!r}")
                        return
                elif resp is not None:
                    out.fail("notification-answered", f"message {k}: {resp!r}")
                    return

        run_virtual(go)
    except Exception as e:  # noqa
        if type(e).__name__ == "VirtualDeadlock":
            out.fail("request-never-answered", "a session-bound message was dispatched and dispatch never returned (nothing left to wait for)")
            return out
        out.fail("long-life-harness-raised", f"{type(e).__name__}: {e}")
    finally:
        memmod.time = real  # type: ignore
    return out


def _handler_kind(prog: Dict[str, Any], method: str, params: Any) -> Optional[str]:
    tools, resources, custom = prog.get("tools", []), prog.get("resources", []), dict(prog.get("custom", []))
    if method == "tools/call" and isinstance(params, dict):
        nm = params.get("name")
        if isinstance(nm, str) and nm.startswith("tool") and nm[4:].isdigit() and int(nm[4:]) < len(tools):
            return tools[int(nm[4:])]
    if method == "resources/read" and isinstance(params, dict):
        u = params.get("uri")
        if isinstance(u, str) and u.startswith("file:///r") and u[9:].isdigit() and int(u[9:]) < len(resources):
            return "res:" + resources[int(u[9:])]
    if method in custom:
        return "custom:" + custom[method]
    return None


def check_concurrent(case: Dict[str, Any]) -> Outcome:
    """several messages dispatched on one server while the others are still in flight (a transport that does not wait
    for one handler before reading the next line): every request gets exactly one response with ITS id, whatever else
    is being handled at that moment - the same tool, the same resource, the same method with the same arguments."""
    import asyncio as _a

    out = Outcome(nontrivial=True)
    prog = case["server"]
    msgs = case["concurrent"]
    srv = build_server(prog)
    built = []
    for m in msgs:
        try:
            built.append(build_message(m))
        except Exception:
            out.classes = ("skipped-not-wellformed",)
            out.nontrivial = False
            return out
    same = len({(m["method"], json.dumps(m.get("params"), sort_keys=True, default=str)) for m in msgs}) < len(msgs)
    ids_ = [json.dumps(m["id"]) for m in msgs if "id" in m]
    out.classes = ("concurrent-dispatch", f"in-flight:{len(msgs)}", "same-method-and-arguments" if same else "different-targets") + (("same-id-on-two-connections",) if len(set(ids_)) < len(ids_) else ())
    results: List[Any] = [None] * len(msgs)

    async def one(k: int):
        await _a.sleep(msgs[k].get("delay", 0.0))
        try:
            results[k] = ("ret", await srv.protocol_handler.handle_message(built[k][1], None))
        except Exception as e:  # noqa
            results[k] = ("raise", e)

    async def go():
        await _a.gather(*[one(k) for k in range(len(msgs))])

    try:
        run_virtual(go)
    except Exception as e:  # noqa
        out.fail("concurrent-dispatch-harness-raised", f"{type(e).__name__}: {e}")
        return out
    for k, m in enumerate(msgs):
        is_req = "id" in m
        how, val = results[k]
        if how == "raise":
            out.fail("dispatch-raised-on-request" if is_req else "dispatch-raised-on-notification", f"message {k} of {json.dumps(msgs, default=str)[:300]}: {type(val).__name__}: {str(val)[:200]}")
            continue
        resp = val[0] if isinstance(val, tuple) and len(val) == 2 else "$shape"
        if resp == "$shape":
            out.fail("dispatch-return-shape", repr(val)[:200])
            continue
        if not is_req:
            if resp is not None:
                out.fail("notification-was-answered", f"message {k}: {m!r}")
            continue
        if _handler_kind(prog, m["method"], m.get("params")) == "custom:none":
            continue  # (a custom handler that breaks its own contract: see ASSUMPTIONS)
        if resp is None:
            out.fail("request-not-answered", f"message {k}: {m!r}")
            continue
        try:
            w = json.loads(resp.model_dump_json(exclude_none=True))
        except Exception as e:  # noqa
            out.fail("response-not-serialisable", f"{m!r}: {type(e).__name__}: {e}")
            continue
        kind, why = classify(w)
        if kind not in ("result", "error"):
            out.fail("response-not-valid-jsonrpc", f"{why}: {w!r}")
            continue
        if not strict_eq(w.get("id"), m["id"]):
            out.fail("response-id-differs:concurrent", f"request {k} id {m['id']!r} answered with id {w.get('id')!r}; in flight: {[x.get('id', '$notification') for x in msgs]!r}")
            continue
        hk = _handler_kind(prog, m["method"], m.get("params"))
        base = (hk or "").split(":")[-1]
        if hk is not None and base.startswith("raise") and not (kind == "error" and w["error"].get("code") == -32603):
            out.fail("raising-handler-not-32603", f"{hk}: {w!r}")
        if hk is not None and base in ("str", "slow_str", "answer", "slow_answer") and kind != "result":
            out.fail("working-handler-not-answered-with-result", f"{hk} while {len(msgs) - 1} other message(s) in flight: {w!r}")
        if hk is None and m["method"] in ("ping", "tools/list", "resources/list") and kind != "result":
            out.fail("core-method-not-answered-with-result", f"{m['method']}: {w!r}")
    return out


def check(case: Dict[str, Any]) -> Outcome:
    if "gaps" in case:
        return check_life(case)
    if "concurrent" in case:
        return check_concurrent(case)
    out = Outcome()
    prog = case.get("server", {})
    try:
        wire, msg = build_message(case)
    except Exception as e:  # not a well-formed message by the library's own constructors: outside the domain
        out.classes = ("skipped-not-wellformed",)
        return out
    srv = build_server(prog)
    is_req = "id" in case
    method = case["method"]
    tools = prog.get("tools", [])
    resources = prog.get("resources", [])
    custom = dict(prog.get("custom", []))
    core = {"initialize", "notifications/initialized", "ping", "tools/list", "tools/call", "resources/list", "resources/read"}
    registered = method in core or method in custom

    out.classes = (
        "request" if is_req else "notification",
        "registered" if registered else "unregistered",
        f"how:{case.get('how', 'parse')}",
    ) + (("overlapping-dispatch",) if case.get("overlap") else ())
    handler_kind = None
    params = case.get("params", "$absent")
    if method == "tools/call" and isinstance(params, dict):
        nm = params.get("name")
        if isinstance(nm, str) and nm.startswith("tool") and nm[4:].isdigit() and int(nm[4:]) < len(tools):
            handler_kind = tools[int(nm[4:])]
    if method == "resources/read" and isinstance(params, dict):
        u = params.get("uri")
        if isinstance(u, str) and u.startswith("file:///r") and u[9:].isdigit() and int(u[9:]) < len(resources):
            handler_kind = "res:" + resources[int(u[9:])]
    if method in custom:
        handler_kind = "custom:" + custom[method]
    mid = case.get("id")
    out.nontrivial = (
        (not is_req and method != "notifications/initialized")
        or (handler_kind is not None and handler_kind not in ("str", "res:str", "custom:answer"))
        or (is_req and (mid == 0 or mid == "" or (isinstance(mid, int) and mid < 0)))
    )

    if is_req and handler_kind == "custom:none":
        # a register_method handler that returns no response for a request breaks its own
        # (response, session_id) contract; the repository's suite pins that dispatch passes
        # this through (test_handler_returning_none), so it is outside the property
        out.classes = out.classes + ("skipped-contract-breaking-custom-handler",)
        out.nontrivial = False
        return out

    overlap = case.get("overlap")

    async def go():
        if not overlap:
            return await srv.protocol_handler.handle_message(msg, case.get("session"))
        # a second, unrelated message is dispatched on the same handler while this one is in flight
        import asyncio as _a

        _w2, msg2 = build_message(overlap)

        async def other():
            await _a.sleep(overlap.get("delay", 0.01))
            try:
                return await srv.protocol_handler.handle_message(msg2, None)
            except Exception:
                return None

        t2 = _a.ensure_future(other())
        try:
            return await srv.protocol_handler.handle_message(msg, case.get("session"))
        finally:
            await t2

    try:
        ret = run_virtual(go)
    except Exception as e:  # noqa
        sig = "dispatch-raised-on-request" if is_req else "dispatch-raised-on-notification"
        out.fail(sig, f"{wire!r}: {type(e).__name__}: {str(e)[:200]}")
        return out
    if not (isinstance(ret, tuple) and len(ret) == 2):
        out.fail("dispatch-return-shape", repr(ret))
        return out
    resp = ret[0]
    if not is_req:
        if resp is not None:
            out.fail("notification-was-answered", f"{wire!r} -> {getattr(resp, 'model_dump', lambda **k: resp)()!r}")
        return out
    if resp is None:
        out.fail("request-not-answered", repr(wire))
        return out
    if isinstance(resp, list):
        out.fail("request-answered-with-a-list", repr(wire))
        return out
    try:
        line = resp.model_dump_json(exclude_none=True)
        w = json.loads(line)
    except Exception as e:  # noqa
        out.fail("response-not-serialisable", f"{wire!r}: {type(e).__name__}: {e}")
        return out
    kind, why = classify(w)
    if kind not in ("result", "error"):
        out.fail("response-not-valid-jsonrpc", f"{why}: {w!r}")
        return out
    if not strict_eq(w.get("id"), mid):
        out.fail("response-id-differs", f"request id {mid!r} ({type(mid).__name__}) response id {w.get('id')!r} ({type(w.get('id')).__name__})")
    # round trip through the library's parser
    from chuk_mcp.protocol.messages.json_rpc_message import parse_message

    try:
        back = parse_message(w)
        w2 = json.loads(back.model_dump_json(exclude_none=True))
        d = first_diff(w, w2)
        if d:
            out.fail("response-does-not-reparse-to-itself", d)
    except Exception as e:  # noqa
        out.fail("response-rejected-by-own-parser", f"{w!r}: {e}")

    code = w["error"]["code"] if kind == "error" else None
    # documented codes
    if method == "":
        if code not in (-32600, -32601):
            out.fail("empty-method-wrong-code", repr(w))
        return out
    if not registered:
        if code != -32601:
            out.fail("unregistered-method-not-32601", f"{method!r}: {w!r}")
        return out
    if handler_kind is not None:
        base = handler_kind.split(":")[-1]
        raises = base.startswith("raise") or handler_kind in ("nested_bad_json",)
        if base == "slow_str":
            base = "str"
        if handler_kind == "needs_arg":
            args = params.get("arguments", {}) if isinstance(params, dict) else {}
            ok_args = isinstance(args, dict) and set(args.keys()) == {"x"} and isinstance(args["x"], (int, float)) and not isinstance(args["x"], bool)
            if ok_args and kind != "result":
                out.fail("valid-call-not-answered-with-result", repr(w))
            if not ok_args and code not in (-32602, -32603):
                out.fail("bad-arguments-wrong-code", repr(w))
        elif raises:
            if code != -32603:
                out.fail("raising-handler-not-32603", f"{handler_kind}: {w!r}")
        else:
            args = params.get("arguments", {}) if isinstance(params, dict) else {}
            callable_ok = method != "tools/call" or (isinstance(args, dict) and all(isinstance(k, str) for k in args))
            if callable_ok and kind != "result":
                out.fail("working-handler-not-answered-with-result", f"{handler_kind}: {w!r}")
            if not callable_ok and kind == "error" and code not in (-32602, -32603):
                out.fail("bad-arguments-wrong-code", repr(w))
    elif method in ("tools/call", "resources/read"):
        key = "name" if method == "tools/call" else "uri"
        name = params.get(key) if isinstance(params, dict) else None
        if isinstance(params, dict) or params == "$absent" or params is None:
            scalar = name is None or isinstance(name, (str, int, float, bool))
            if scalar and code != -32602:
                out.fail("unknown-tool-or-resource-not-32602", f"{method} {name!r}: {w!r}")
            if not scalar and code not in (-32602, -32603):
                out.fail("unknown-tool-or-resource-wrong-code", f"{method} {name!r}: {w!r}")
    elif method in ("ping", "tools/list", "resources/list", "initialize"):
        if kind != "result":
            out.fail("core-method-not-answered-with-result", f"{method}: {w!r}")
    return out


# --------------------------------------------------------------------------------------- generators

_ids = st.one_of(
    st.sampled_from([0, -1, 1, 2**63, 2**64 - 1, -(2**63), "", "0", "7", "123", "abc", "x y", "é"]),
    st.integers(-(2**63), 2**64 - 1), json_text,
)


@st.composite
def cases(draw):
    rmk = st.sampled_from(RAISE_MSG_KINDS)
    tools = draw(st.lists(st.one_of(st.sampled_from(HANDLER_KINDS), st.sampled_from(HANDLER_KINDS), rmk), max_size=3))
    resources = draw(st.lists(st.one_of(st.sampled_from(["str", "none", "object", "raise", "slow_str", "raise_slow"]), rmk), max_size=2))
    custom = draw(st.lists(st.tuples(st.sampled_from(["x/custom", "notifications/cancelled", "notifications/progress", "y/other"]), st.one_of(st.sampled_from(["answer", "raise", "none", "answer_always", "raise_slow", "slow_answer", "raise_code_int", "raise_code_str", "raise_code_none", "raise_code_callable"]), rmk)).map(list), max_size=2, unique_by=lambda t: t[0]))
    prog = {"tools": tools, "resources": resources, "custom": custom}
    method = draw(st.one_of(
        st.sampled_from(["initialize", "ping", "tools/list", "tools/call", "resources/list", "resources/read", "tools/call", "resources/read"]),
        st.sampled_from(notification_names()),
        st.sampled_from([c[0] for c in custom]) if custom else st.just("x/none"),
        st.sampled_from(["", "nope", "tools/List", "rpc.discover", "prompts/list", "notifications/unknown", " ping"]),
        json_text,
    ))
    if method == "tools/call":
        name = draw(st.one_of(st.sampled_from([f"tool{i}" for i in range(4)]), st.sampled_from([None, 5, 1.5, True, ["tool0"], {"a": 1}, "", "nope"])))
        args = draw(st.one_of(st.just("$omit"), st.just({}), st.just({"x": 1}), st.just({"x": "s"}), st.just({"y": 1}), st.none(), st.just([1]), st.just("str"), json_objects(4),
                              st.dictionaries(st.sampled_from(ARG_NAMES), st.integers(0, 3), min_size=1, max_size=3)))
        params: Any = {"name": name}
        if args != "$omit":
            params["arguments"] = args
        if draw(st.integers(0, 9)) == 0:
            params = draw(st.sampled_from(["$absent", {}, {"arguments": {}}]))
    elif method == "resources/read":
        uri = draw(st.one_of(st.sampled_from([f"file:///r{i}" for i in range(3)]), st.sampled_from([None, 5, ["file:///r0"], {"a": 1}, "", "nope"])))
        params = {"uri": uri}
        if draw(st.integers(0, 9)) == 0:
            params = draw(st.sampled_from(["$absent", {}]))
    elif method == "initialize":
        params = draw(st.sampled_from(["$absent", {}, {"protocolVersion": "2025-06-18", "clientInfo": {"name": "c", "version": "1"}, "capabilities": {}}, {"protocolVersion": 5}, {"clientInfo": None}]))
    else:
        params = draw(st.one_of(st.just("$absent"), st.just({}), json_objects(5)))
    if isinstance(params, dict) and draw(st.integers(0, 3)) == 0:
        # `_meta` is reserved on every params object; a well-formed message may carry anything there
        params = dict(params, _meta=draw(st.one_of(st.none(), st.just({}), st.just({"progressToken": "t-1"}), st.just({"progressToken": 7, "x": None}), json_text, st.integers(-1, 3), st.booleans(),
                                                  st.lists(st.integers(0, 2), max_size=2), json_objects(3))))
    case: Dict[str, Any] = {"server": prog, "method": method, "params": params, "how": draw(st.sampled_from(["parse", "unified", "specific"]))}
    if draw(st.integers(0, 2)) > 0:
        case["id"] = draw(_ids)
    if draw(st.integers(0, 5)) == 0:
        # the same server with several messages in flight at once
        pool = [{"method": method, "params": params}, {"method": "tools/call", "params": {"name": "tool0", "arguments": {}}}, {"method": "resources/read", "params": {"uri": "file:///r0"}},
                {"method": "ping", "params": {}}, {"method": "tools/list", "params": {}}, {"method": "notifications/cancelled", "params": {"requestId": "x"}}] + [{"method": c[0], "params": {}} for c in custom]
        msgs = []
        ids = draw(st.lists(_ids, min_size=4, max_size=4, unique_by=lambda i: (type(i).__name__, i)))
        for k in range(draw(st.integers(2, 4))):
            m = dict(draw(st.sampled_from(pool)), how=draw(st.sampled_from(["parse", "unified", "specific"])), delay=draw(st.sampled_from([0.0, 0.0, 0.01, 0.02, 0.03])))
            if not m["method"].startswith("notifications/") or draw(st.integers(0, 4)) == 0:
                m["id"] = ids[k] if draw(st.integers(0, 3)) else ids[0]
            msgs.append(m)
        return {"server": prog, "concurrent": msgs}
    if draw(st.integers(0, 3)) == 0:
        case["session"] = draw(st.sampled_from(["nope", ""]))
    if draw(st.integers(0, 3)) == 0:
        ov: Dict[str, Any] = {"method": draw(st.sampled_from(["ping", "tools/list", "nope", "notifications/cancelled", "tools/call"])), "params": {"name": "tool0", "arguments": {}},
                              "how": draw(st.sampled_from(["parse", "unified", "specific"])), "delay": draw(st.sampled_from([0.0, 0.01, 0.03]))}
        if draw(st.booleans()):
            ov["id"] = draw(st.sampled_from(["other-id", 999, 0]))
        case["overlap"] = ov
    return case


def job_hyp(col: Collector, seed: int, tier: str, shard: int, n: int) -> None:
    hyp_run(col, seed * 1000 + shard, cases(), check, n)


def job_notifs(col: Collector, seed: int, tier: str) -> None:
    """Every standard notification name x {no handler, answering handler, raising handler} x three construction ways."""
    names = notification_names()
    for name in names + ["notifications/unknown", "tools/list", "tools/call", "ping", "resources/read", "initialize", "x/custom"]:
        for custom in ([], [[name, "raise"]], [[name, "none"]], [[name, "answer"]], [[name, "answer_always"]]):
            for how in ("parse", "unified", "specific"):
                for params in ("$absent", {}, {"requestId": "r1", "reason": "x"}):
                    case = {"server": {"tools": ["str"], "resources": [], "custom": custom}, "method": name, "params": params, "how": how}
                    col.record(case, check(case))
    col.exhaustive_parts.append(f"{len(names)} notifications/* names of MessageMethod (+7 other methods sent without id) x 5 handler registrations x 3 constructions x 3 params shapes")
    col.extra["notification_names"] = names


def job_handlers(col: Collector, seed: int, tier: str) -> None:
    """every tool / resource handler behaviour, called by its registered name: x 5 argument shapes x 4 ids x 3 constructions"""
    for kind in HANDLER_KINDS:
        for args in ("$omit", {}, {"x": 1}, None, {"x": "s", "_meta": None}):
            for rid in (1, 0, "a", ""):
                for how in ("parse", "unified", "specific"):
                    params: Dict[str, Any] = {"name": "tool0"}
                    if args != "$omit":
                        params["arguments"] = args
                    case = {"server": {"tools": [kind], "resources": [], "custom": []}, "method": "tools/call", "params": params, "how": how, "id": rid}
                    col.record(case, check(case))
    for kind in ("str", "none", "object", "raise"):
        for rid in (1, 0, "a", ""):
            for how in ("parse", "unified", "specific"):
                case = {"server": {"tools": [], "resources": [kind], "custom": []}, "method": "resources/read", "params": {"uri": "file:///r0"}, "how": how, "id": rid}
                col.record(case, check(case))
    for k in ("raise", "raise_code_int", "raise_code_str", "raise_code_none", "raise_code_callable", "raise_code_jsonrpc"):
        for rid in (1, 0, "a", None):
            for how in ("parse", "unified", "specific"):
                case = {"server": {"tools": [], "resources": [], "custom": [["x/custom", k]]}, "method": "x/custom", "params": {}, "how": how}
                if rid is not None:
                    case["id"] = rid
                col.record(case, check(case))
    # argument names a tool may well declare and a dispatcher's own helpers may use too: they are the tool's, whatever they are called
    for an in ARG_NAMES:
        for kind in ("str", "dict"):
            for val in (1, "v"):
                case = {"server": {"tools": [kind], "resources": [], "custom": []}, "method": "tools/call", "params": {"name": "tool0", "arguments": {an: val}}, "how": "parse", "id": 1}
                col.record(case, check(case))
        case = {"server": {"tools": ["str"], "resources": [], "custom": []}, "method": "tools/call", "params": {"name": "tool0", "arguments": {a_: 1 for a_ in ARG_NAMES}}, "how": "specific", "id": "all"}
        col.record(case, check(case))
    # what the exception says: every (type, text) pair from each of the three kinds of handler
    for k in RAISE_MSG_KINDS:
        for rid in (1, "a"):
            for how in ("parse", "specific"):
                for case in ({"server": {"tools": [k], "resources": [], "custom": []}, "method": "tools/call", "params": {"name": "tool0", "arguments": {}}},
                             {"server": {"tools": [], "resources": [k], "custom": []}, "method": "resources/read", "params": {"uri": "file:///r0"}},
                             {"server": {"tools": [], "resources": [], "custom": [["x/custom", k]]}, "method": "x/custom", "params": {}}):
                    case = dict(case, how=how, id=rid)
                    col.record(case, check(case))
        case = {"server": {"tools": [], "resources": [], "custom": [["notifications/cancelled", k]]}, "method": "notifications/cancelled", "params": {"requestId": 1}, "how": "parse"}
        col.record(case, check(case))
    col.exhaustive_parts.append(f"{len(HANDLER_KINDS)} tool handler behaviours x 5 argument shapes x 4 ids x 3 constructions; 4 resource handler behaviours x 4 ids x 3 constructions; {N_EXC} (exception type, text) pairs - empty, multi-line, format-like, non-ASCII, 5000 characters - raised by a tool, a resource and a custom handler")


def job_concurrent(col: Collector, seed: int, tier: str) -> None:
    """2..4 requests in flight on one server: each target kind (slow/fast/raising tool, resource, custom method, core
    method) against itself with the same arguments and against each other, at start offsets within and beyond the
    handlers' 20 ms of work"""
    prog = {"tools": ["slow_str", "raise_slow", "str"], "resources": ["slow_str", "raise_slow", "str"], "custom": [["x/slow", "slow_answer"], ["x/boom", "raise_slow"]]}
    targets = [{"method": "tools/call", "params": {"name": f"tool{i}", "arguments": {}}} for i in range(3)] + [{"method": "resources/read", "params": {"uri": f"file:///r{i}"}} for i in range(3)] + [
        {"method": "x/slow", "params": {}}, {"method": "x/boom", "params": {}}, {"method": "ping", "params": {}}, {"method": "tools/list", "params": {}}, {"method": "resources/list", "params": {}}]
    idsets = [[101, "req-102", -7], [0, "0", ""], ["a", "b", "c"]]
    n = 0
    for a in targets:
        for b in targets:
            for delays in ((0.0, 0.0, 0.0), (0.0, 0.01, 0.01), (0.0, 0.01, 0.03)):
                n += 1
                ids = idsets[n % 3]
                hows = ["parse", "unified", "specific"]
                msgs = [dict(a, id=ids[0], how=hows[n % 3], delay=delays[0]), dict(b, id=ids[1], how=hows[(n + 1) % 3], delay=delays[1]), dict(a, id=ids[2], how=hows[(n + 2) % 3], delay=delays[2])]
                case = {"server": prog, "concurrent": msgs}
                col.record(case, check(case))
    # request ids are unique per connection only: two connections of one server may have the same id in flight
    for a in targets[:8]:
        for rid in (0, 1, "a", -7):
            for delays in ((0.0, 0.0), (0.0, 0.01), (0.01, 0.0)):
                msgs = [dict(a, id=rid, how="parse", delay=delays[0]), dict(a, id=rid, how="specific", delay=delays[1]), dict(targets[8], id=rid, how="parse", delay=0.005)]
                case = {"server": prog, "concurrent": msgs}
                col.record(case, check(case))
    # the first of the group is a notification (no id to give away)
    for a in targets[:8]:
        msgs = [dict(a, how="parse", delay=0.0), dict(a, id=5, how="parse", delay=0.0), dict(a, id="6", how="specific", delay=0.01)]
        case = {"server": prog, "concurrent": msgs}
        col.record(case, check(case))
    col.exhaustive_parts.append(f"{len(targets)}^2 ordered pairs of targets (the first repeated a third time) x 3 start-offset patterns, 3 requests in flight each")


def job_life(col: Collector, seed: int, tier: str) -> None:
    for n, gap_every, gaps in ((200, 1, [3601]), (300, 7, [7200, 10, 86400]), (260, 63, [3700]), (260, 64, [3700]), (260, 65, [3700]), (400, 16, [3599, 3601]), (150, 3, [0, 1, 4000])):
        case = {"n": n, "gap_every": gap_every, "gaps": gaps}
        col.record(case, check(case))
    # what the client said about itself at initialize (stored verbatim) must not matter to any later message of the session
    infos = ["a string", ["a", "list"], None, 7, True, {}, {"name": ["n", 1]}, {"name": {"k": "v"}}, {"name": None, "version": None}, {"name": 5, "version": [1]}, {"version": "1"}, {"name": "x" * 70000}, {"name": "c", "version": "1", "extra": {"deep": [None]}}]
    for ci in infos:
        case = {"n": 12, "gap_every": 5, "gaps": [10, 4000], "client_info": ci}
        col.record(case, check(case))
    # failing calls accumulating on one server instance, successes in between
    for n, failing in ((120, 1), (200, 2), (400, 3)):
        case = {"n": n, "gap_every": 50, "gaps": [1], "failing": failing}
        col.record(case, check(case))
    col.exhaustive_parts.append("13 shapes of clientInfo (non-objects, unhashable / null / huge names) followed by 12 session-bound messages; 3 connections on which every 1st / 2nd / 3rd tool call fails (30..100 failures) among successful ones")
    col.exhaustive_parts.append("7 long-lived connections: 150..400 session-bound messages with clock gaps of up to a day at various periods")


JOBS = {"hyp": job_hyp, "notifs": job_notifs, "handlers": job_handlers, "life": job_life, "concurrent": job_concurrent}


def jobs(tier: str):
    if tier == "quick":
        return [("hyp", {"shard": s, "n": 400}) for s in range(13)] + [("notifs", {}), ("handlers", {}), ("life", {}), ("concurrent", {})]
    return [("hyp", {"shard": s, "n": 7000}) for s in range(14)] + [("notifs", {}), ("handlers", {}), ("life", {}), ("concurrent", {})]


def shrink(signature: str, seed: int):
    return hyp_shrink(seed * 1000, cases(), check, signature, 2000)
