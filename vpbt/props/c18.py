"""C18 - concurrent requests on one connection: no cross-talk and no lost responses."""
from __future__ import annotations

import asyncio
import itertools
from typing import Any, Dict, List, Tuple

from hypothesis import strategies as st

from ..drive import drive, wire_of
from ..jsonrpc_ref import strict_eq
from ..runner import Collector, Outcome, hyp_run, hyp_shrink

ID = "C18"
LEVEL = "exploration"
RULE = (
    "case = n in 2..4 concurrent send_message callers (own ids, own timeouts) on one (read, write) pair + the server's answers as a list of "
    "(instant, caller index) in any order on a virtual-time grid around the 0.5 s poll boundaries, each a result (also the empty/falsy results {}, [], 0, "", false) or an error, as the unified or the typed envelope class + 0..2 unrelated notifications placed between answers; optionally one caller's cancellation token triggered at a generated instant; "
    "the same over a real StdioClient with the answers arriving behind a burst of 0..400 notifications in 1..7 pipe reads; n<=3 enumerated exhaustively (all answer permutations x 5 instants per answer x 3 notification patterns), n=4 drawn by Hypothesis; "
    "a recording proxy logs which caller task dequeued which item; non-trivial = answer order differs from request order or a notification sits between two answers; "
    "distinct = distinct full case"
    "; round 8: ids chosen by the library next to caller-named ids in the style seen on the wire (the successors of the last generated id); server requests reusing a peer's outstanding id"
    "; added in rounds 6-7 of the seeded changes: caller-named ids differing only in JSON type; answers packed into batch arrays (stdio); an id reused after a timeout while a peer is ahead in the queue"
)
ASSUMPTIONS = [
    "callers share the stream pair exactly as application code sharing one connection does (send_message called concurrently)",
    "virtual clock; an answer exactly at a caller's deadline may go either way",
]
EXHAUSTIVE = {"quick": True, "thorough": True}
META = {
    "text": "All answer permutations x instants x notification patterns for 2 and 3 concurrent callers are enumerated; 4 callers are sampled. Cross-talk and loss are decided per caller from the recorded dequeue log. The known architectural loss (a waiter dequeues and discards a peer's response) is matched only when the log shows exactly that mechanism.",
    "technique": "bounded-exhaustive permutations/instants + Hypothesis on a virtual clock; oracle = per-caller expected payload and dequeue log",
}

INSTANTS = [10, 49, 50, 51, 90]
FALSY: List[Any] = [{}, [], 0, "", False]


def check_stdio(case: Dict[str, Any]) -> Outcome:
    """the same callers over a real StdioClient (scripted child): the server's answers arrive behind a burst of k
    notifications, everything in a few pipe reads; nobody reads the connection but the callers themselves."""
    import json

    from chuk_mcp.protocol.messages.send_message import send_message
    from chuk_mcp.transports.stdio.stdio_client import StdioClient

    from ..fakeproc import FakeProcess, patched_open_process, stdio_params
    from ..vclock import run_virtual

    out = Outcome()
    n, k, order, reads = case["n"], case["burst"], case["order"], case.get("reads", 1)
    results: Dict[int, Tuple[str, Any]] = {}
    ids: List[Any] = list(case.get("ids") or [f"c{i}" for i in range(n)])
    batch = case.get("batch")  # the server sends its notifications and answers as JSON-RPC batch arrays (a protocol version that has batches)

    async def main():
        procs: List[FakeProcess] = []
        with patched_open_process(procs):
            async with StdioClient(stdio_params()) as client:
                r, w = client.get_streams()
                proc = procs[0]
                if batch:
                    client.set_protocol_version("2025-03-26")

                async def one(i: int):
                    try:
                        v = await send_message(r, w, f"m/{i}", {"i": i}, timeout=3.0, message_id=ids[i])
                        results[i] = ("return", v)
                    except BaseException as e:  # noqa
                        results[i] = ("raise", e)
                        if isinstance(e, asyncio.CancelledError):
                            raise

                tasks = [asyncio.ensure_future(one(i)) for i in range(n)]
                await asyncio.sleep(0.05)
                lines = [json.dumps({"jsonrpc": "2.0", "method": "notifications/message", "params": {"level": "info", "data": j}}) for j in range(k)]
                big = case.get("big")  # the answer of this caller is larger than 64 KiB
                answers_ = [json.dumps({"jsonrpc": "2.0", "id": ids[i], "result": {"for": f"c{i}", **({"blob": "z" * 70000} if big == i else {})}}) for i in order]
                if batch == "front":  # one array: the notifications, then the answers
                    lines = ["[" + ",".join(lines + answers_) + "]"]
                elif batch == "middle":  # one array: an answer, the notifications, the other answers
                    lines = ["[" + ",".join(answers_[:1] + lines + answers_[1:]) + "]"]
                elif batch == "split":  # two arrays: notifications and the first answer; a notification and the rest
                    lines = ["[" + ",".join(lines + answers_[:1]) + "]", "[" + ",".join(lines[:1] + answers_[1:]) + "]"]
                elif batch == "answers-only":
                    lines = lines + ["[" + ",".join(answers_) + "]"]
                else:
                    lines += answers_
                blob = ("\n".join(lines) + "\n").encode()
                step = max(1, len(blob) // reads) if not case.get("read_size") else case["read_size"]
                for a in range(0, len(blob), step):
                    proc.stdout.feed(blob[a : a + step])
                    await asyncio.sleep(0)
                if case.get("eof"):
                    # a one-shot server: it has answered everything and closes its output / exits at once
                    proc.stdout.close()
                await asyncio.gather(*tasks, return_exceptions=True)

    try:
        run_virtual(main)
    except Exception as e:  # noqa
        out.fail("stdio-burst-harness-raised", f"{type(e).__name__}: {e}")
        return out
    out.nontrivial = k > 0 or order != sorted(order)
    out.classes = ("stdio-burst", f"n:{n}", f"burst:{'0' if k == 0 else ('<=100' if k <= 100 else '>100')}") + (("server-closes-output-after-answering",) if case.get("eof") else ()) + (("answer>64KiB-followed-by-small-ones",) if case.get("big") is not None else ()) + ((f"answers-in-batch-arrays:{batch}",) if batch else ()) + (("ids-differ-only-in-json-type",) if len({str(x) for x in ids}) < len(ids) else ())
    for i in range(n):
        kind, val = results.get(i, ("none", None))
        if kind == "return" and isinstance(val, dict) and val.get("for") == f"c{i}":
            continue
        if kind == "return":
            out.fail("cross-talk:caller-got-anothers-response", f"stdio burst: caller {i} returned {val!r}")
        else:
            out.fail("lost-response:behind-a-burst-on-the-transport", f"caller {i} of {n}: its answer followed {k} notifications in {reads} read(s); ended with {val!r}")
    return out


def check_reuse(case: Dict[str, Any]) -> Outcome:
    """an id is used again on the same connection after its first request timed out unanswered (a retry), while another
    caller is outstanding and ahead in the receive queue: the retry's answer, dequeued by the peer, must still reach it"""
    from chuk_mcp.protocol.messages.send_message import send_message

    out = Outcome(nontrivial=True)
    rid = case.get("id", "job")
    t_b, t_a2, d_ans, d_other = case["t_b"] / 100.0, case["t_a2"] / 100.0, case["d_ans"] / 100.0, case.get("d_other", 80) / 100.0
    T1 = case.get("T1", 60) / 100.0
    out.classes = ("id-reused-after-a-timeout", "peer-started-before-the-first-timeout" if t_b < T1 else "peer-started-after-the-first-timeout")
    results: Dict[str, Any] = {}

    async def call(r, w):
        loop = asyncio.get_running_loop()

        async def one(name: str, start: float, mid: Any, timeout: float):
            try:
                if start > loop.time():
                    await asyncio.sleep(start - loop.time())
                v = await send_message(r, w, f"m/{name}", {"who": name}, timeout=timeout, message_id=mid)
                results[name] = ("return", v, loop.time())
            except BaseException as e:  # noqa
                results[name] = ("raise", e, loop.time())
                if isinstance(e, asyncio.CancelledError):
                    raise

        tasks = [asyncio.ensure_future(one("A1", 0.0, rid, T1)), asyncio.ensure_future(one("B", t_b, "other", 4.0)), asyncio.ensure_future(one("A2", t_a2, rid, 2.0))]
        for t_, n_ in zip(tasks, ("A1", "B", "A2")):
            t_.set_name(n_)
        await asyncio.gather(*tasks, return_exceptions=True)

    schedule = [(t_a2 + d_ans, {"jsonrpc": "2.0", "id": rid, "result": {"for": "A2"}}), (t_a2 + d_ans + d_other, {"jsonrpc": "2.0", "id": "other", "result": {"for": "B"}})]
    if case.get("notif"):
        schedule.insert(0, (t_a2 + 0.01, {"jsonrpc": "2.0", "method": "notifications/message", "params": {"level": "info", "data": 1}}))
    res = drive(call, schedule, wait_first_write=True, max_vtime=30)
    if res.outcome == "hang":
        out.fail("callers-never-finished", repr(results))
        return out
    a1, b, a2 = results.get("A1"), results.get("B"), results.get("A2")
    if not (a1 and a1[0] == "raise" and isinstance(a1[1], TimeoutError)):
        out.fail("unanswered-request-did-not-time-out", repr(a1))
    if not (a2 and a2[0] == "return" and a2[1] == {"for": "A2"}):
        if a2 and a2[0] == "return":
            out.fail("cross-talk:caller-got-anothers-response", f"the retry with id {rid!r} returned {a2[1]!r}")
        else:
            out.fail("lost-response:answer-to-a-reused-id", f"id {rid!r}: first request timed out at {T1}s unanswered; retry sent at {t_a2}s, answered at {t_a2 + d_ans}s (deadline {t_a2 + 2.0}s) while a peer was waiting: retry ended with {a2 and a2[1]!r}")
    if not (b and b[0] == "return" and b[1] == {"for": "B"}):
        out.fail("lost-response:other" if not (b and b[0] == "return") else "cross-talk:caller-got-anothers-response", f"peer ended with {b!r}")
    return out


def check(case: Dict[str, Any]) -> Outcome:
    if "burst" in case:
        return check_stdio(case)
    if "t_a2" in case:
        return check_reuse(case)
    from chuk_mcp.protocol.messages.send_message import send_message

    out = Outcome()
    import json as _json

    n = case["n"]
    # each caller's request id: by default c0, c1 ...; a case may name them (ids that differ only in JSON type)
    ids: List[Any] = list(case.get("ids") or [f"c{i}" for i in range(n)])
    # an id may be None (the library chooses it) or "$succ:k": the caller names ids in the style it has seen on the wire - the k-th
    # successor of the id the library generated for an earlier call when that was a number, else that (completed) id itself
    auto = [i for i in range(n) if ids[i] is None]
    if any(isinstance(x, str) and x.startswith("$succ:") for x in ids):
        async def probe(r, w):
            return await send_message(r, w, "probe", {}, timeout=5)

        pr = drive(probe, [(0.1, {"jsonrpc": "2.0", "id": "$ID", "result": {}})], wait_first_write=True, max_vtime=30)
        seen = pr.req_id
        for i in range(n):
            if isinstance(ids[i], str) and ids[i].startswith("$succ:"):
                k_ = int(ids[i][6:])
                ids[i] = str(int(seen) + k_) if isinstance(seen, str) and seen.isdigit() else (seen + k_ if type(seen) is int else f"{seen}")
        if len({_json.dumps(x) for x in ids if x is not None}) < len([x for x in ids if x is not None]):
            ids = [x if x is None else f"{x}#{i}" for i, x in enumerate(ids)]  # (keep the named ones distinct)
    answer_ids = [f"$IDOF:m/{i}" if ids[i] is None else ids[i] for i in range(n)]
    idkey = lambda x: _json.dumps(x)  # noqa: E731
    timeouts = [t / 100.0 for t in case["timeouts"]]
    starts = [t / 100.0 for t in case.get("starts", [0] * n)]  # callers may join later (staggered lifetimes)
    answers: List[List[int]] = case["answers"]  # [t_cs, caller]
    notifs: List[int] = case.get("notifs", [])  # instants (cs)
    err_for = set(case.get("errors", []))

    schedule: List[Tuple[float, Any]] = []
    seq: List[Tuple[float, int, str]] = []
    falsy: Dict[str, int] = case.get("falsy", {})  # caller -> which empty/falsy result its answer carries (valid results all)
    phases: List[int] = case.get("phases", [])
    typed = set(case.get("typed", []))  # answers delivered as the specific envelope classes instead of the unified one
    for k, (t, i) in enumerate(answers):
        form = {"$form": "typed"} if i in typed else {}
        ph = phases[k] if k < len(phases) else 0  # position among the events of that instant (see drive)
        if i in err_for:
            schedule.append((t / 100.0, {"jsonrpc": "2.0", "id": answer_ids[i], "error": {"code": -32000 - i, "message": f"for c{i}"}, **form}, ph))
        elif str(i) in falsy:
            schedule.append((t / 100.0, {"jsonrpc": "2.0", "id": answer_ids[i], "result": FALSY[falsy[str(i)] % len(FALSY)], **form}, ph))
        else:
            schedule.append((t / 100.0, {"jsonrpc": "2.0", "id": answer_ids[i], "result": {"for": f"c{i}", "k": k}, **form}, ph))
        seq.append((t / 100.0, k, "a"))
    for j, t in enumerate(notifs):
        schedule.append((t / 100.0, {"jsonrpc": "2.0", "method": "notifications/message", "params": {"level": "info", "data": j}}))
        seq.append((t / 100.0, 100 + j, "n"))

    for j, (t, i) in enumerate(case.get("srvreq", [])):
        # the server's own request (roots/list, sampling) may bear an id some caller is waiting on: it is nobody's response
        schedule.append((t / 100.0, {"jsonrpc": "2.0", "id": answer_ids[i], "method": "roots/list" if j % 2 == 0 else "sampling/createMessage", "params": {"for": f"c{i}"}}))

    results: Dict[int, Tuple[str, Any, float]] = {}

    cancels: Dict[str, int] = case.get("cancel", {})  # caller -> instant (cs) at which its cancellation token is triggered
    tokens: Dict[int, Any] = {}
    if cancels:
        from chuk_mcp.protocol.messages.send_message import CancellationToken

        tokens = {int(i_): CancellationToken() for i_ in cancels}

    async def call(r, w):
        async def canceller(i_: int, t_: float):
            await asyncio.sleep(t_)
            tokens[i_].cancel()

        for i_, t_ in cancels.items():
            asyncio.ensure_future(canceller(int(i_), t_ / 100.0))

        async def one(i: int):
            loop = asyncio.get_running_loop()
            try:
                if starts[i] > 0:
                    await asyncio.sleep(starts[i])
                kw = {"cancellation_token": tokens[i]} if i in tokens else {}
                v = await send_message(r, w, f"m/{i}", {"i": i}, timeout=timeouts[i], message_id=ids[i], **kw)
                results[i] = ("return", v, loop.time())
            except BaseException as e:  # noqa
                results[i] = ("raise", e, loop.time())
                if isinstance(e, asyncio.CancelledError):
                    raise

        tasks = [asyncio.ensure_future(one(i)) for i in range(n)]
        for i, t in enumerate(tasks):
            t.set_name(f"caller{i}")
        await asyncio.gather(*tasks, return_exceptions=True)

    res = drive(call, schedule, wait_first_write=True, max_vtime=max(starts) + max(timeouts) + 20)
    for i in auto:
        mine = [w_["id"] for _, w_ in res.written if isinstance(w_, dict) and w_.get("method") == f"m/{i}" and "id" in w_]
        ids[i] = mine[0] if mine else f"<caller {i} wrote nothing>"

    first_answer_for: Dict[int, Tuple[float, int]] = {}
    for k, (t, i) in enumerate(answers):
        if i not in first_answer_for or t / 100.0 < first_answer_for[i][0]:
            first_answer_for[i] = (t / 100.0, k)

    order_idx = [i for _, i in sorted(answers, key=lambda a: a[0])]
    out_of_order = order_idx != sorted(order_idx)
    between = False
    ts = sorted(t for t, _ in answers)
    if len(ts) >= 2:
        between = any(ts[0] <= x <= ts[-1] for x in notifs)
    out.nontrivial = out_of_order or between
    out.classes = (f"n:{n}", "out-of-order" if out_of_order else "in-order", "notif-between" if between else "no-notif-between") + (("staggered-starts",) if any(starts) else ()) + (("a-caller-cancelled",) if cancels else ()) + (("ids-differ-only-in-json-type",) if len({str(x) for x in ids}) < len(ids) else ()) + (("named-ids",) if case.get("ids") else ()) + (("library-chosen-and-caller-named-ids-mixed",) if auto else ()) + (("server-request-reusing-an-outstanding-id",) if case.get("srvreq") else ())

    # who dequeued what
    dequeued_by: Dict[str, List[str]] = {}
    for ev in res.events:
        if ev[0] == "recv" and ev[3] is not None:
            w = wire_of(ev[3])
            if isinstance(w, dict) and "method" not in w and "id" in w:
                dequeued_by.setdefault(idkey(w["id"]), []).append(ev[2])

    if res.outcome == "hang":
        out.fail("callers-never-finished", f"results={results!r}")
        return out

    # all n requests written exactly once
    reqs = [w for _, w in res.written if isinstance(w, dict) and "method" in w and "id" in w]
    # (a caller whose token is cancelled no later than its start never sends anything)
    optional = {idkey(ids[int(i_)]) for i_, t_ in cancels.items() if t_ / 100.0 <= starts[int(i_)] + 1e-9}
    ids_written = sorted(idkey(r["id"]) for r in reqs)
    if sorted(x for x in ids_written if x not in optional) != sorted(idkey(ids[i]) for i in range(n) if idkey(ids[i]) not in optional) or len(set(ids_written)) != len(ids_written):
        out.fail("requests-not-written-once-each", repr(reqs))

    for i in range(n):
        o = results.get(i)
        if o is None:
            out.fail("caller-has-no-outcome", f"caller {i}")
            continue
        kind, val, t_end = o
        fa = first_answer_for.get(i)
        T = starts[i] + timeouts[i]
        if fa is not None and fa[0] <= starts[i] + 1e-9:
            continue  # answered before the request was even sent: outside the property
        # ---- (a) cross-talk
        if kind == "return" and str(i) in falsy and i not in err_for:
            if not strict_eq(val, FALSY[falsy[str(i)] % len(FALSY)]):
                out.fail("cross-talk:caller-got-anothers-response", f"caller {i} (empty result {FALSY[falsy[str(i)] % len(FALSY)]!r} expected) returned {val!r}")
                continue
        elif kind == "return":
            if not (isinstance(val, dict) and val.get("for") == f"c{i}"):
                out.fail("cross-talk:caller-got-anothers-response", f"caller {i} returned {val!r}")
                continue
        elif getattr(val, "code", None) is not None and isinstance(val, Exception) and not isinstance(val, TimeoutError):
            code = getattr(val, "code")
            if code != -32000 - i:
                out.fail("cross-talk:caller-got-anothers-error", f"caller {i} raised code {code}")
                continue
        if str(i) in cancels and not (fa is not None and fa[0] < cancels[str(i)] / 100.0 - 1e-9):
            # this caller was cancelled before its answer arrived: how it ends is C14's subject; what matters here is
            # that its peers still get their responses
            continue
        # ---- (b) loss
        if fa is not None and fa[0] < T - 1e-9:
            expect_err = i in err_for and any(ii == i for _, ii in answers)
            got_it = (kind == "return") or (kind == "raise" and not isinstance(val, TimeoutError))
            if not got_it:
                takers = dequeued_by.get(idkey(ids[i]), [])
                if takers and all(tk != f"caller{i}" for tk in takers) and all(tk.startswith("caller") for tk in takers):
                    out.fail(
                        "lost-response:consumed-and-discarded-by-peer-waiter",
                        f"caller {i}: response sent at t={fa[0]} < deadline {T} was dequeued by {takers} and dropped; caller {i} ended with {type(val).__name__}",
                    )
                else:
                    out.fail("lost-response:other", f"caller {i}: response at t={fa[0]} deadline {T}; dequeued_by={takers}; ended with {val!r}")
            elif kind == "return" and str(i) not in falsy and i not in err_for:
                # the server may answer twice (a retry, a proxy repeating itself): the call completes with the FIRST
                # response bearing its id, whoever happened to dequeue the two copies
                mine_idx = [ix for ix in res.delivered_idx if ix < len(answers) and answers[ix][1] == i]
                if mine_idx and isinstance(val, dict) and val.get("k") != mine_idx[0] and len(mine_idx) > 1:
                    same_instant = abs(answers[mine_idx[0]][0] - answers[mine_idx[1]][0]) < 1e-9
                    if not same_instant:
                        out.fail("returned-a-later-duplicate-instead-of-the-first-response", f"caller {i}: first answer was #{mine_idx[0]} (t={answers[mine_idx[0]][0] / 100.0}), returned #{val.get('k')}")
        elif fa is None or fa[0] > T + 1e-9:
            if kind == "return":
                out.fail("returned-without-own-response", f"caller {i} returned {val!r} but no answer before its deadline")
            elif not isinstance(val, TimeoutError):
                out.fail("no-answer-but-not-timeout", f"caller {i}: {val!r}")
            elif abs(t_end - T) > 1e-6:
                out.fail("timeout-at-wrong-instant", f"caller {i}: t_end={t_end} T={T}")
    return out


def job_exhaustive(col: Collector, seed: int, tier: str, shard: int, nshards: int) -> None:
    i = 0
    for n in (2, 3):
        for perm in itertools.permutations(range(n)):
            for inst in itertools.product(INSTANTS, repeat=n):
                for npat in (0, 1, 2):
                    i += 1
                    if i % nshards != shard:
                        continue
                    answers = [[inst[k], perm[k]] for k in range(n)]
                    ts = sorted(t for t, _ in answers)
                    if npat == 0:
                        notifs: List[int] = []
                    elif npat == 1:
                        notifs = [(ts[0] + ts[-1]) // 2]
                    else:
                        notifs = [ts[0], ts[-1] - 1 if ts[-1] > ts[0] else ts[0]]
                    case = {"n": n, "timeouts": [200] * n, "answers": answers, "notifs": notifs}
                    col.record(case, check(case))
    # answer kinds and message classes: each caller's answer is a result or an error, unified or typed class
    for perm in itertools.permutations(range(2)):
        for inst in itertools.product([10, 50, 60], repeat=2):
            for kinds in itertools.product(range(4), repeat=2):
                i += 1
                if i % nshards != shard:
                    continue
                case = {"n": 2, "timeouts": [200, 200], "answers": [[inst[k], perm[k]] for k in range(2)], "notifs": [],
                        "errors": [c for c in range(2) if kinds[c] & 1], "typed": [c for c in range(2) if kinds[c] & 2]}
                col.record(case, check(case))
                if kinds == (0, 0):
                    for who in range(2):
                        for fk in range(len(FALSY)):
                            case = {"n": 2, "timeouts": [200, 200], "answers": [[inst[k], perm[k]] for k in range(2)], "notifs": [], "falsy": {str(who): fk}}
                            col.record(case, check(case))
    # answers exactly on poll boundaries, at each position among the events of that instant
    for perm in itertools.permutations(range(2)):
        for inst in ((50, 50), (50, 100), (100, 50), (50, 60), (100, 100)):
            for phs in itertools.product((0, -2, -4), repeat=2):
                i += 1
                if i % nshards != shard:
                    continue
                case = {"n": 2, "timeouts": [200, 200], "answers": [[inst[k], perm[k]] for k in range(2)], "notifs": [], "phases": list(phs)}
                col.record(case, check(case))
    # duplicated answers: the original and a copy 10 ms later, for each caller, in each answer order, with the owner at
    # the front or at the back of the queue of waiting receivers (a notification at t=0.05 sends one caller to the back)
    for n_ in (2, 3):
        for perm in itertools.permutations(range(n_)):
            for who in range(n_):
                for t_dup in (10, 52):
                    for notif in ([], [5]):
                        i += 1
                        if i % nshards != shard:
                            continue
                        answers = [[t_dup + 3 * k, perm[k]] for k in range(n_)]
                        pos = next(k for k in range(n_) if perm[k] == who)
                        answers.insert(pos + 1, [answers[pos][0] + 1, who])
                        case = {"n": n_, "timeouts": [200] * n_, "answers": answers, "notifs": notif}
                        col.record(case, check(case))
    # one caller's token is cancelled while it is blocked; the next message it dequeues is a peer's response
    for n_ in (2, 3):
        for who in range(n_):
            for tcan in (5, 20, 45, 55):
                for perm in itertools.permutations(range(n_)):
                    for inst in ((10, 30, 60), (48, 52, 70), (30, 30, 30)):
                        i += 1
                        if i % nshards != shard:
                            continue
                        case = {"n": n_, "timeouts": [200] * n_, "answers": [[inst[k], perm[k]] for k in range(n_)], "notifs": [], "cancel": {str(who): tcan}}
                        col.record(case, check(case))
    # ids the callers name themselves: pairs / triples that differ only in JSON type, or are falsy
    # (send_message replaces a falsy message_id by a generated one, so 0 and "" cannot be named by a caller)
    for idset in ([7, "7"], ["7", 7], [-1, "-1"], ["1", 1], [7, "7", 70], ["0", 1, "1"], [1, "1", -1], ["c1", 1, "1"], [2**53 + 1, str(2**53 + 1), "x"]):
        n_ = len(idset)
        for perm in itertools.permutations(range(n_)):
            for inst in ((10, 20, 30), (30, 10, 20), (10, 10, 10), (48, 52, 70), (50, 50, 100)):
                for typed in ([], list(range(n_))):
                    i += 1
                    if i % nshards != shard:
                        continue
                    case = {"n": n_, "timeouts": [200] * n_, "answers": [[inst[k], perm[k]] for k in range(n_)], "notifs": [5] if i % 2 else [], "ids": idset, "typed": typed}
                    col.record(case, check(case))
    # ids chosen by the library next to ids named by callers in the style seen on the wire (successors of the last generated one)
    for idset in ([None, "$succ:1"], ["$succ:1", None], [None, "$succ:2", None], ["$succ:2", None, None], [None, None, "$succ:3"], ["$succ:1", "$succ:2", None], [None, "$succ:0"], [None, None]):
        n_ = len(idset)
        for perm in itertools.permutations(range(n_)):
            for inst in ((10, 20, 30), (10, 10, 10), (48, 52, 70)):
                i += 1
                if i % nshards != shard:
                    continue
                case = {"n": n_, "timeouts": [200] * n_, "answers": [[inst[k], perm[k]] for k in range(n_)], "notifs": [5] if i % 2 else [], "ids": idset}
                col.record(case, check(case))
    # a server request bearing the id of an outstanding call, before / between / after the answers
    for n_ in (2, 3):
        for perm in itertools.permutations(range(n_)):
            for inst in ((10, 20, 30), (48, 52, 70), (60, 60, 60)):
                for who in range(n_):
                    for tq in (5, 15, 25, 50, 55):
                        i += 1
                        if i % nshards != shard:
                            continue
                        case = {"n": n_, "timeouts": [200] * n_, "answers": [[inst[k], perm[k]] for k in range(n_)], "notifs": [], "srvreq": [[tq, who]] + ([[tq, (who + 1) % n_]] if i % 3 == 0 else [])}
                        col.record(case, check(case))
    # staggered lifetimes: caller 2 joins at t=0.30 after an earlier caller may have completed
    for perm in itertools.permutations(range(3)):
        for inst in itertools.product([10, 20, 40, 60, 90], repeat=3):
            i += 1
            if i % nshards != shard:
                continue
            answers = [[max(inst[k], 32) if perm[k] == 2 else inst[k], perm[k]] for k in range(3)]
            case = {"n": 3, "timeouts": [200, 200, 200], "starts": [0, 0, 30], "answers": answers, "notifs": []}
            col.record(case, check(case))
    if shard == 0:
        col.exhaustive_parts.append("n in {2,3}: all answer permutations x instants {0.10,0.49,0.50,0.51,0.90}^n x 3 notification patterns, timeouts 2.0 s; plus 2 callers x {result, error} x {unified, typed class} per answer x 2 orders x 3^2 instants; plus 3 callers with the third joining at t=0.30: all permutations x 5^3 instants")


@st.composite
def cases(draw):
    n = draw(st.sampled_from([2, 3, 4, 4]))
    timeouts = [draw(st.sampled_from([60, 100, 150, 200])) for _ in range(n)]
    perm = draw(st.permutations(list(range(n))))
    tgrid = st.one_of(st.sampled_from([1, 10, 49, 50, 51, 59, 60, 61, 99, 100, 101, 149, 150, 151]), st.integers(1, 220))
    answers = [[draw(tgrid), i] for i in perm if draw(st.integers(0, 9)) > 0]
    notifs = draw(st.lists(tgrid, max_size=2))
    errors = [i for i in range(n) if draw(st.integers(0, 4)) == 0]
    case = {"n": n, "timeouts": timeouts, "answers": answers, "notifs": notifs, "errors": errors}
    if draw(st.integers(0, 2)) == 0:
        case["typed"] = [i for i in range(n) if draw(st.booleans())]
    if draw(st.integers(0, 3)) == 0 and case["answers"]:
        # a duplicate of some answer shortly after the original
        t0_, who_ = draw(st.sampled_from(case["answers"]))
        case["answers"] = case["answers"] + [[t0_ + draw(st.sampled_from([1, 2, 5, 20])), who_]]
    if draw(st.integers(0, 3)) == 0:
        who = draw(st.integers(0, n - 1))
        case["cancel"] = {str(who): draw(tgrid)}
    if draw(st.integers(0, 2)) == 0:
        case["phases"] = [draw(st.sampled_from([0, 0, -1, -2, -4])) for _ in case["answers"]]
    if draw(st.integers(0, 2)) == 0:
        # at most one caller per case gets an empty/falsy (but valid) result, so a mix-up stays visible
        case["falsy"] = {str(draw(st.integers(0, n - 1))): draw(st.integers(0, len(FALSY) - 1))}
    if draw(st.integers(0, 3)) == 0:
        # the callers name their ids themselves: integers and strings, some differing only in JSON type, some falsy
        case["ids"] = list(draw(st.permutations([7, "7", "0", "c1", 1, "1", -1, "-1"])))[:n]
    elif draw(st.integers(0, 5)) == 0:
        case["ids"] = [draw(st.sampled_from([None, None, "$succ:1", "$succ:2", "$succ:3"])) for _ in range(n)]
    if draw(st.integers(0, 4)) == 0:
        case["srvreq"] = [[draw(st.integers(1, 120)), draw(st.integers(0, n - 1))] for _ in range(draw(st.integers(1, 3)))]
    if draw(st.booleans()):
        starts = [0] + [draw(st.sampled_from([0, 0, 15, 30, 55, 80])) for _ in range(n - 1)]
        case["starts"] = starts
        # an answer is only meaningful after its request was sent
        case["answers"] = [[max(t, starts[i] + 2), i] for t, i in answers]
    return case


def job_hyp(col: Collector, seed: int, tier: str, shard: int, n: int) -> None:
    hyp_run(col, seed * 1000 + shard, cases(), check, n)


def job_stdio(col: Collector, seed: int, tier: str) -> None:
    for n in (2, 3):
        for order in itertools.permutations(range(n)):
            for k in (0, 1, 50, 99, 100, 101, 150, 400):
                for reads in (1, 2, 7):
                    case = {"n": n, "burst": k, "order": list(order), "reads": reads}
                    col.record(case, check(case))
                    if k <= 50:
                        case = dict(case, eof=True)
                        col.record(case, check(case))
    # one answer beyond 64 KiB, the others right behind it in the same pipe reads, then silence
    for n in (2, 3):
        for order in itertools.permutations(range(n)):
            for big in range(n):
                for read_size in (65536, 16384, 100000):
                    case = {"n": n, "burst": 0, "order": list(order), "reads": 1, "big": big, "read_size": read_size}
                    col.record(case, check(case))
    # the answers (and notifications) in JSON-RPC batch arrays
    for n in (2, 3):
        for order in itertools.permutations(range(n)):
            for k in (0, 1, 3):
                for batch in ("front", "middle", "split", "answers-only"):
                    for ids_ in (None, [7, "7", 70][:n], ["1", 1, "0"][:n]):
                        case = {"n": n, "burst": k, "order": list(order), "reads": 1 + k % 2, "batch": batch}
                        if ids_:
                            case["ids"] = ids_
                        col.record(case, check(case))
    for n in (2, 3):
        for order in itertools.permutations(range(n)):
            for ids_ in ([7, "7", 70][:n], ["0", "1", 1][:n], ["1", 1, "c1"][:n]):
                case = {"n": n, "burst": 1, "order": list(order), "reads": 1, "ids": ids_}
                col.record(case, check(case))
    col.exhaustive_parts.append("over StdioClient at a batching protocol version: 2 and 3 callers x all answer orders x 4 ways of packing notifications and answers into batch arrays x ids that differ only in JSON type")
    col.exhaustive_parts.append("over StdioClient: 2 and 3 callers x all answer orders x burst of {0,1,50,99,100,101,150,400} notifications ahead of the answers x {1,2,7} pipe reads; one answer of 70 KB with the small ones right behind it, reads of 16 / 64 / 100 KiB")


def job_reuse(col: Collector, seed: int, tier: str) -> None:
    for rid in ("job", 7):
        for t_b in (10, 55, 70):
            for t_a2 in (65, 110, 160):
                if t_a2 <= t_b:
                    continue
                for d_ans in (5, 30, 52, 100):
                    for notif in (False, True):
                        case = {"id": rid, "t_b": t_b, "t_a2": t_a2, "d_ans": d_ans, "notif": notif}
                        col.record(case, check(case))
    col.exhaustive_parts.append("an id reused after its first request timed out unanswered: 2 ids x peer start {0.10, 0.55, 0.70} x retry start {0.65, 1.10, 1.60} x answer delay {0.05, 0.30, 0.52, 1.00} x a notification in between or not")


JOBS = {"reuse": job_reuse, "exhaustive": job_exhaustive, "hyp": job_hyp, "stdio": job_stdio}


def _jobs_extra():
    return [("reuse", {})]


def jobs(tier: str):
    if tier == "quick":
        return [("exhaustive", {"shard": s, "nshards": 10}) for s in range(10)] + [("hyp", {"shard": s, "n": 350}) for s in range(5)] + [("stdio", {})] + _jobs_extra()
    return [("exhaustive", {"shard": s, "nshards": 8}) for s in range(8)] + [("hyp", {"shard": s, "n": 6000}) for s in range(8)] + [("stdio", {})] + _jobs_extra()


def shrink(signature: str, seed: int):
    return hyp_shrink(seed * 1000, cases(), check, signature, 2000)
