"""Run an Atheris campaign as a job: subprocess under a wall-clock budget, statistics parsed
from libFuzzer's final stats, any saved crash re-evaluated here to get its root-cause signature."""
from __future__ import annotations

import glob
import os
import re
import shutil
import subprocess
import sys
import tempfile
from typing import Any, Dict

from ..runner import VERIF_DIR, Collector, Outcome


def check_fuzz_case(case: Dict[str, Any]) -> Outcome:
    """replay of a saved fuzz input: {"fuzz": target, "data": bytes}"""
    from .targets import TARGETS

    out = Outcome(nontrivial=True, classes=(f"fuzz:{case['fuzz']}",))
    r = TARGETS[case["fuzz"]](case["data"])
    if r is not None:
        out.fail(r[0], r[1])
    return out


def run_fuzz_job(col: Collector, target: str, seconds: int, seed: int, corpus: str) -> None:
    deps = os.path.join(VERIF_DIR, ".deps")
    if not os.path.isdir(os.path.join(deps, "atheris")):
        col.uncovered.append(f"atheris campaign {target}/{corpus}: atheris not installed (run setup_cmd)")
        return
    work = tempfile.mkdtemp(prefix="vpbt_fuzz_")
    try:
        env = dict(os.environ, PYTHONHASHSEED="0")
        env["PYTHONPATH"] = VERIF_DIR + os.pathsep + env.get("PYTHONPATH", "")
        p = subprocess.run([sys.executable, "-m", "vpbt.fuzz", target, str(seconds), str(seed), work, corpus], cwd=VERIF_DIR, env=env,
                           stdout=subprocess.PIPE, stderr=subprocess.STDOUT, timeout=seconds + 300)
        text = p.stdout.decode("utf-8", "replace")
        m = re.search(r"stat::number_of_executed_units:\s*(\d+)", text)
        n = int(m.group(1)) if m else 0
        m2 = re.search(r"stat::new_units_added:\s*(\d+)", text)
        new = int(m2.group(1)) if m2 else 0
        col.evaluations += n
        col.nontrivial_extra += new
        col.count(f"atheris:{target}:{corpus}:execs", n)
        col.count(f"atheris:{target}:{corpus}:coverage-increasing-inputs", new)
        for f in sorted(glob.glob(os.path.join(work, "corpus", "*")))[:3]:
            if len(col.samples) < 8:
                col.samples.append({"fuzz": target, "data": {"$bytes": open(f, "rb").read()[:200].hex()}})
        for f in glob.glob(os.path.join(work, "crash-*")) + glob.glob(os.path.join(work, "timeout-*")):
            data = open(f, "rb").read()
            case = {"fuzz": target, "data": data}
            o = check_fuzz_case(case)
            if not o.failures:
                o.fail(f"atheris-crash-not-reproducible:{target}", text[-400:])
            col.record(case, o)
            col.evaluations -= 1
        if n == 0 and p.returncode != 0:
            raise RuntimeError(f"atheris campaign {target} failed to run:\n{text[-1500:]}")
    finally:
        shutil.rmtree(work, ignore_errors=True)
