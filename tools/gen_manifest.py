#!/usr/bin/env python3
"""Regenerate MANIFEST.json from the per-property modules (META dicts) - keeps it valid at
all times.  Properties without a module are listed under not_applicable with the reason."""
import importlib
import json
import os
import sys

root = os.path.dirname(os.path.dirname(os.path.abspath(__file__)))
sys.path.insert(0, root)
sys.path.insert(0, "/repo/src")

props = [json.loads(l) for l in open(os.path.join(root, "properties.jsonl"))]
PY = "/venv/bin/python"
checks = []
na = []
for p in props:
    pid = p["id"]
    modpath = os.path.join(root, "vpbt", "props", pid.lower() + ".py")
    if not os.path.exists(modpath):
        na.append({"property_id": pid, "reason": "check not built yet in this tree (planned in DESIGN.md section 2; technique applies)"})
        continue
    mod = importlib.import_module(f"vpbt.props.{pid.lower()}")
    meta = getattr(mod, "META", {})
    checks.append(
        {
            "property_id": pid,
            "quick_cmd": f"{PY} -m vpbt {pid} --tier quick",
            "thorough_cmd": f"{PY} -m vpbt {pid} --tier thorough",
            "evidence_file": f"evidence/{pid}.json",
            "replay_cmd_template": f"{PY} -m vpbt {pid} --replay {{path}}",
            "engine": "vpbt",
            "level_claimed": {
                "category": mod.LEVEL,
                "text": meta.get("text", mod.RULE),
                "design_ref": f"DESIGN.md section 2 ({pid})",
            },
            "level_note": meta.get("note", "; ".join(getattr(mod, "ASSUMPTIONS", []))),
            "technique": meta.get("technique", "property-based testing (Hypothesis) against a reference model"),
        }
    )

manifest = {
    "version": 1,
    "setup_cmd": f"{PY} -m vpbt.setup",
    "hooks": {
        "guard": "CHUK_MCP_VERIF",
        "enable": "no source hooks are needed: every seam (anyio.open_process, httpx.AsyncClient, time in the session store, backend selection env vars) is patched from outside at run time; the guard name is reserved and unused",
        "baseline_off_cmd": "cd /repo && /venv/bin/python -m pytest -ra -q -p no:cacheprovider --timeout=900 --continue-on-collection-errors",
        "source_commits": [],
        "add_only": True,
    },
    "engines": [
        {
            "name": "vpbt",
            "path": "vpbt/",
            "serves_properties": [c["property_id"] for c in checks],
            "kind_free_text": "property-based testing / fuzzing harness: Hypothesis generators and rule-based state machines, bounded-exhaustive enumeration sharded over 16 processes, virtual-time asyncio loop, scripted process/HTTP peers, independent reference oracles, collect-then-shrink with root-cause signatures",
        }
    ],
    "checks": checks,
    "not_applicable": na,
    "notes": "Run from /verif. VERIF_SEED selects the Hypothesis seed; VERIF_REPO (default /repo) selects the tree. Exit 0 held / 1 VIOLATION / 2 harness error or inconclusive. known_findings.json lists genuine defects (open = reported as KNOWN-FINDING; fixed = documented only).",
}
json.dump(manifest, open(os.path.join(root, "MANIFEST.json"), "w"), indent=1)
print("claimed", [c["property_id"] for c in checks], "n/a", [x["property_id"] for x in na])
