"""python -m vpbt.fuzz <target> <seconds> <seed> <workdir> [corpus: empty|seeded]"""
import os
import sys


def main() -> None:
    target, seconds, seed, workdir = sys.argv[1], int(sys.argv[2]), int(sys.argv[3]), sys.argv[4]
    corpus_kind = sys.argv[5] if len(sys.argv) > 5 else "seeded"
    root = os.path.dirname(os.path.dirname(os.path.dirname(os.path.abspath(__file__))))
    sys.path.insert(0, os.path.join(root, ".deps"))
    sys.path.insert(0, os.path.join(os.environ.get("VERIF_REPO", "/repo"), "src"))
    import logging

    logging.disable(logging.CRITICAL)
    import atheris

    with atheris.instrument_imports(include=["chuk_mcp.transports"]):
        import chuk_mcp.transports.http.transport  # noqa
        import chuk_mcp.transports.sse.transport  # noqa
        import chuk_mcp.transports.stdio.stdio_client  # noqa
    from vpbt.fuzz.targets import SEEDS, TARGETS

    fn = TARGETS[target]
    corpus = os.path.join(workdir, "corpus")
    os.makedirs(corpus, exist_ok=True)
    if corpus_kind == "seeded":
        for i, s in enumerate(SEEDS[target]):
            with open(os.path.join(corpus, f"seed{i}"), "wb") as fh:
                fh.write(s)

    def one(data: bytes) -> None:
        r = fn(data)
        if r is not None:
            raise RuntimeError(f"ORACLE-VIOLATION {r[0]}")

    argv = [sys.argv[0], corpus, f"-max_total_time={seconds}", f"-seed={seed or 1}", "-max_len=512", "-print_final_stats=1",
            f"-artifact_prefix={workdir}/", "-timeout=20"]
    atheris.Setup(argv, one)
    atheris.Fuzz()


if __name__ == "__main__":
    main()
