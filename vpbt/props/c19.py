"""C19 - server session bookkeeping behaves like a map from unique ids to records."""
from __future__ import annotations

import copy
import itertools
from typing import Any, Dict, List, Optional

from hypothesis import strategies as st

from ..jsonrpc_ref import strict_eq
from ..runner import Collector, Outcome, hyp_run, hyp_shrink
from ..vclock import run_virtual

ID = "C19"
LEVEL = "exploration"
RULE = (
    "case = operation sequence over {create, get, update activity, delete, advance clock, cleanup(max_age incl. exact idle-time boundaries +-1 and the default), "
    "list+mutate (add/remove/clear the returned dict), clear, initialize through ProtocolHandler (also arriving with the id of a live / gone session, with the same or another client info), dispatch ping / a registered method whose handler succeeds or raises / an unknown method with known/unknown/deleted session id} "
    "interpreted against the real store (time.time in the session module replaced by a controlled integer clock) and a dict model, compared after every step; "
    "Hypothesis sequences up to 60 (quick) / 200 (thorough) steps, a Hypothesis RuleBasedStateMachine whose rules draw live sessions from a bundle (50 / 120 steps per run), plus all sequences of length<=4 (quick) / <=5 (thorough) over a 17-operation alphabet on a 3-session universe; "
    "non-trivial = sequence contains a cleanup at an exact boundary, or update/delete/get after delete/expiry, or a list mutation; distinct = distinct sequence"
    "; round 8: the application reseeding the process-wide PRNG between operations"
    "; added in rounds 6-7 of the seeded changes: partial / null-bearing client-info records; dispatch cancelled mid-handler followed by expiry"
)
ASSUMPTIONS = [
    "the clock is read through the module attribute `time` of chuk_mcp.server.session.memory (replaced by a fake with integer seconds)",
    "mutating a SessionInfo object obtained from list_sessions() is outside the property (only adding/removing entries of the returned dict is covered)",
    "for a dispatch whose method has no handler the activity update is unspecified (model follows the implementation); for registered methods it is required",
]
EXHAUSTIVE = {"quick": False, "thorough": False}
META = {
    "text": "Model-based testing of the session store against a dict model with a controlled clock: generated operation histories (stateful generation as plain-data sequences that shrink as one value) and bounded-exhaustive short sequences; every return value and the whole store are compared after every step.",
    "technique": "model-based (stateful) property testing: Hypothesis operation sequences + RuleBasedStateMachine with bundles + bounded-exhaustive short sequences vs a dict reference model",
}


class FakeTime:
    def __init__(self) -> None:
        self.now = 1_000_000

    def time(self) -> float:
        return float(self.now)


CLIENT_INFOS = [{}, {"name": "c", "version": "1"}, {"name": "é", "version": "2", "extra": [1, None]},
                # what small or sloppy clients send: a partial record, explicit nulls, only vendor members - recorded as sent
                {"name": "tiny-client"}, {"version": "9"}, {"name": "n", "version": "1", "title": None}, {"title": "T", "x-vendor": {"k": None}}, {"name": "", "version": ""}]
VERSIONS = ["2025-06-18", "2025-03-26", "2024-11-05", "1999-01-01"]


def check(case: Dict[str, Any]) -> Outcome:
    import chuk_mcp.server.session.memory as memmod
    from chuk_mcp.protocol.messages.json_rpc_message import parse_message
    from chuk_mcp.protocol.types.capabilities import ServerCapabilities
    from chuk_mcp.protocol.types.info import ServerInfo
    from chuk_mcp.protocol.types.versioning import SUPPORTED_VERSIONS
    from chuk_mcp.server.protocol_handler import ProtocolHandler

    out = Outcome()
    ops: List[List[Any]] = case["ops"]
    clock = FakeTime()
    real_time = memmod.time
    memmod.time = clock  # type: ignore
    try:
        handler = ProtocolHandler(ServerInfo(name="s", version="1"), ServerCapabilities())

        async def _boom(message, session_id):
            raise RuntimeError("handler failed")

        async def _fine(message, session_id):
            return handler.create_response(getattr(message, "id", None), {"ok": True}), None

        async def _slow(message, session_id):
            import asyncio as _a

            await _a.sleep(5.0)
            return handler.create_response(getattr(message, "id", None), {"ok": "slow"}), None

        handler.register_method("boom/raise", _boom)  # a registered method whose handler fails (answered with -32603)
        handler.register_method("fine/ok", _fine)
        handler.register_method("slow/wait", _slow)  # a handler that takes a while (its request may be abandoned meanwhile)
        store = handler.session_manager
        model: Dict[str, Dict[str, Any]] = {}
        ever: List[str] = []  # every id ever created (incl. deleted / expired)
        flags = {"boundary": False, "after_gone": False, "list_mut": False}
        req_id = 0

        def ref(r: Any) -> str:
            if r == "unknown" or not ever:
                return "no-such-session"
            return ever[r % len(ever)]

        def compare(step: int, op: Any) -> bool:
            real = store.sessions if hasattr(store, "sessions") else store.list_sessions()
            if set(real.keys()) != set(model.keys()):
                extra = set(real.keys()) - set(model.keys())
                missing = set(model.keys()) - set(real.keys())
                sig = "store-has-session-the-model-lacks" if extra else "store-lost-a-session"
                out.fail(f"{sig}:after-{op[0]}", f"step {step} op {op!r}: extra={len(extra)} missing={len(missing)}")
                return False
            if store.get_session_count() != len(model):
                out.fail("session-count-differs", f"step {step} op {op!r}")
                return False
            for sid, m in model.items():
                s = real[sid]
                for f in ("client_info", "protocol_version", "created_at", "last_activity", "metadata"):
                    if not strict_eq(getattr(s, f), m[f]):
                        out.fail(f"record-field-differs:{f}:after-{op[0]}", f"step {step} op {op!r}: real {getattr(s, f)!r} model {m[f]!r}")
                        return False
                if s.session_id != sid:
                    out.fail("record-id-differs-from-key", f"step {step}")
                    return False
            return True

        step, op = -1, None
        try:
            for step, op in enumerate(ops):
                k = op[0]
                if k == "create":
                    ci = copy.deepcopy(CLIENT_INFOS[op[1] % len(CLIENT_INFOS)])
                    ver = VERSIONS[op[2] % len(VERSIONS)]
                    meta = op[3] if len(op) > 3 else None
                    sid = store.create_session(ci, ver, copy.deepcopy(meta)) if meta is not None else store.create_session(ci, ver)
                    if not isinstance(sid, str) or sid in ever:
                        out.fail("session-id-not-unique", f"step {step}: {sid!r}")
                        break
                    ever.append(sid)
                    model[sid] = {"client_info": ci, "protocol_version": ver, "created_at": float(clock.now), "last_activity": float(clock.now), "metadata": meta or {}}
                elif k == "reseed":
                    # application code (a tool made reproducible, a test fixture) seeds the process-wide PRNG
                    import random as _random

                    if "rstate" not in flags:
                        flags["rstate"] = _random.getstate()
                    _random.seed(op[1])
                elif k == "get":
                    sid = ref(op[1])
                    s = store.get_session(sid)
                    if sid not in model:
                        flags["after_gone"] = flags["after_gone"] or sid in ever
                        if s is not None:
                            out.fail("get-returned-a-gone-session", f"step {step}")
                            break
                    elif s is None or s.session_id != sid:
                        out.fail("get-missed-a-live-session", f"step {step}")
                        break
                elif k == "update":
                    sid = ref(op[1])
                    r = store.update_activity(sid)
                    want = sid in model
                    if not want and sid in ever:
                        flags["after_gone"] = True
                    if r is not want:
                        out.fail("update-activity-return-value", f"step {step}: returned {r!r} want {want}")
                        break
                    if want:
                        model[sid]["last_activity"] = float(clock.now)
                elif k == "delete":
                    sid = ref(op[1])
                    r = store.delete_session(sid)
                    want = sid in model
                    if not want and sid in ever:
                        flags["after_gone"] = True
                    if r is not want:
                        out.fail("delete-return-value", f"step {step}: returned {r!r} want {want}")
                        break
                    model.pop(sid, None)
                elif k == "advance":
                    clock.now += int(op[1])
                elif k == "cleanup":
                    spec = op[1]
                    if spec == "default":
                        max_age: Optional[int] = None
                        eff = 3600
                    elif isinstance(spec, list):  # ["idle_of", ref, delta]
                        sid = ref(spec[1])
                        idle = int(clock.now - model[sid]["last_activity"]) if sid in model else 0
                        eff = max_age = max(0, idle + spec[2])
                        if sid in model:
                            flags["boundary"] = True
                    else:
                        eff = max_age = int(spec)
                    expired = [sid for sid, m in model.items() if clock.now - m["last_activity"] > eff]
                    if any(clock.now - m["last_activity"] == eff for m in model.values()):
                        flags["boundary"] = True
                    r = store.cleanup_expired() if max_age is None else store.cleanup_expired(max_age)
                    for sid in expired:
                        del model[sid]
                    if r != len(expired):
                        out.fail("cleanup-removed-count-differs", f"step {step}: returned {r!r}, model expires {len(expired)} (max_age={eff})")
                        compare(step, op)
                        break
                elif k == "list_mutate":
                    flags["list_mut"] = True
                    d = store.list_sessions()
                    if set(d.keys()) != set(model.keys()):
                        out.fail("list-differs-from-model", f"step {step}")
                        break
                    how = op[1]
                    if how == "add":
                        d["intruder"] = next(iter(d.values()), None)
                    elif how == "remove" and d:
                        d.pop(sorted(d.keys())[0])
                    elif how == "clear":
                        d.clear()
                    if not compare(step, op):
                        sig = out.failures[-1][0]
                        out.failures[-1] = ("mutating-listed-dict-changed-the-store", out.failures[-1][1] + f" ({sig})")
                        break
                elif k == "clear":
                    r = store.clear_all_sessions()
                    if r != len(model):
                        out.fail("clear-count-differs", f"step {step}: {r!r} vs {len(model)}")
                        break
                    model.clear()
                elif k in ("init", "reinit"):
                    req_id += 1
                    ver = op[1]
                    ci = copy.deepcopy(CLIENT_INFOS[op[2] % len(CLIENT_INFOS)])
                    # "reinit": the initialize request arrives on a connection that already has a session (its id is
                    # passed along); "same" = with the very client info that session recorded
                    with_sid: Optional[str] = None
                    if k == "reinit":
                        with_sid = ref(op[3])
                        if len(op) > 4 and op[4] == "same" and with_sid in model:
                            ci = copy.deepcopy(model[with_sid]["client_info"])
                    params: Dict[str, Any] = {"capabilities": {}, "clientInfo": ci}
                    if ver is not None:
                        params["protocolVersion"] = ver
                    msg = parse_message({"jsonrpc": "2.0", "id": req_id, "method": "initialize", "params": params})
                    before = set(store.list_sessions().keys())

                    async def go():
                        return await handler.handle_message(msg, with_sid) if with_sid is not None else await handler.handle_message(msg)

                    resp, sid = run_virtual(go)
                    if with_sid is not None and with_sid in model:
                        model[with_sid]["last_activity"] = float(clock.now)  # a message bearing that session id
                    new = set(store.list_sessions().keys()) - before
                    if len(new) != 1:
                        out.fail("initialize-did-not-create-exactly-one-session", f"step {step}: {len(new)} new")
                        break
                    nid = next(iter(new))
                    if nid in ever:
                        out.fail("session-id-not-unique", f"step {step}")
                        break
                    if sid != nid:
                        out.fail("initialize-returned-other-session-id", f"step {step}")
                    ever.append(nid)
                    answered = (getattr(resp, "result", None) or {}).get("protocolVersion")
                    model[nid] = {"client_info": ci, "protocol_version": answered, "created_at": float(clock.now), "last_activity": float(clock.now), "metadata": {}}
                    if answered not in SUPPORTED_VERSIONS:
                        out.fail("session-records-unsupported-version", f"step {step}: {answered!r}")
                elif k == "dispatch":
                    req_id += 1
                    method = op[1]
                    sid = ref(op[2])
                    msg = parse_message({"jsonrpc": "2.0", "id": req_id, "method": method})

                    async def go2():
                        if method != "slow/wait":
                            return await handler.handle_message(msg, sid)
                        # the transport gives up on this request while its handler is still running (the client
                        # disconnected, a timeout around the dispatch): the dispatching task is cancelled
                        import asyncio as _a

                        t_ = _a.ensure_future(handler.handle_message(msg, sid))
                        await _a.sleep(0.1)
                        t_.cancel()
                        await _a.gather(t_, return_exceptions=True)
                        flags["dispatch_cancelled_mid_handler"] = True

                    run_virtual(go2)
                    if sid in model:
                        if method in ("ping", "boom/raise", "fine/ok", "slow/wait"):
                            # a request for a registered method is activity of that session, whether its handler succeeds or not
                            model[sid]["last_activity"] = float(clock.now)
                        else:
                            real = store.get_session(sid)
                            if real is not None:
                                model[sid]["last_activity"] = real.last_activity if real.last_activity in (model[sid]["last_activity"], float(clock.now)) else model[sid]["last_activity"]
                    elif sid in ever:
                        flags["after_gone"] = True
                else:
                    raise ValueError(op)
                if not compare(step, op):
                    break
        except Exception as e_:  # noqa
            # an operation of the store / the dispatcher raised to its caller
            out.fail(f"operation-raised:{op[0] if op else '?'}", f"step {step} op {op!r}: {type(e_).__name__}: {e_}")
        rstate = flags.pop("rstate", None)
        out.nontrivial = any(flags.values())
        out.classes = tuple(f for f, v in flags.items() if v) + (f"len:{min(len(ops) // 10 * 10, 100)}",) + (("process-wide-PRNG-reseeded",) if rstate is not None else ())
        flags["rstate"] = rstate
    finally:
        memmod.time = real_time  # type: ignore
        if flags.get("rstate") is not None:
            import random as _random

            _random.setstate(flags["rstate"])
    return out


# --------------------------------------------------------------------------------------- generators

_ref = st.one_of(st.integers(0, 5), st.just("unknown"))
_dt = st.sampled_from([0, 1, 1, 59, 60, 61, 3599, 3600, 3601, 86400])
_op = st.one_of(
    st.tuples(st.just("create"), st.integers(0, 7), st.integers(0, 3)).map(list),
    st.tuples(st.just("create"), st.integers(0, 7), st.integers(0, 3), st.sampled_from([{}, {"k": "v"}, {"n": None}])).map(list),
    st.tuples(st.just("get"), _ref).map(list),
    st.tuples(st.just("update"), _ref).map(list),
    st.tuples(st.just("delete"), _ref).map(list),
    st.tuples(st.just("advance"), _dt).map(list),
    st.tuples(st.just("advance"), _dt).map(list),
    st.tuples(st.just("cleanup"), st.one_of(st.sampled_from([0, 1, 60, 3600, "default"]), st.tuples(st.just("idle_of"), st.integers(0, 5), st.sampled_from([-1, 0, 1])).map(list))).map(list),
    st.tuples(st.just("cleanup"), st.tuples(st.just("idle_of"), st.integers(0, 5), st.sampled_from([-1, 0, 1])).map(list)).map(list),
    st.tuples(st.just("list_mutate"), st.sampled_from(["add", "remove", "clear"])).map(list),
    st.just(["clear"]),
    st.tuples(st.just("reseed"), st.sampled_from([0, 7, 7, 42])).map(list),
    st.tuples(st.just("init"), st.sampled_from(VERSIONS + [None, "draft", 7]), st.integers(0, 7)).map(list),
    st.tuples(st.just("reinit"), st.sampled_from(VERSIONS + [None]), st.integers(0, 7), _ref, st.sampled_from(["same", "other"])).map(list),
    st.tuples(st.just("dispatch"), st.sampled_from(["ping", "ping", "nope/method", "boom/raise", "fine/ok", "slow/wait"]), _ref).map(list),
)


def cases(max_len: int):
    return st.lists(_op, min_size=1, max_size=max_len).map(lambda ops: {"ops": ops})


def job_hyp(col: Collector, seed: int, tier: str, shard: int, n: int, max_len: int) -> None:
    hyp_run(col, seed * 1000 + shard, cases(max_len), check, n)


ALPHABET: List[List[Any]] = [
    ["create", 1, 0], ["get", 0], ["get", 1], ["update", 0], ["update", 1], ["delete", 0], ["delete", 1],
    ["advance", 1], ["advance", 60], ["cleanup", 60], ["cleanup", 0], ["cleanup", ["idle_of", 0, 0]],
    ["list_mutate", "remove"], ["list_mutate", "add"], ["dispatch", "ping", 0], ["dispatch", "boom/raise", 0], ["reinit", "2025-03-26", 1, 0, "same"], ["dispatch", "slow/wait", 0],
]


def job_exhaustive(col: Collector, seed: int, tier: str, shard: int, nshards: int, maxlen: int) -> None:
    if shard == 0:
        # the process-wide PRNG seeded to the same value before each creation (through the store and through initialize)
        mk = [["create", 1, 0], ["create", 0, 1, {"k": "v"}], ["init", "2025-06-18", 1], ["init", "2025-03-26", 0]]
        for a in mk:
            for b in mk:
                for c in mk:
                    for between in ([], [["dispatch", "ping", 0]], [["delete", 0]]):
                        case = {"ops": [["reseed", 7], a, ["reseed", 7], b] + between + [["reseed", 7], c, ["get", 0], ["get", 1], ["get", 2]]}
                        col.record(case, check(case))
        col.exhaustive_parts.append("the process-wide PRNG seeded to one value before each of three creations (4 creation forms each) x 3 things in between")
    prefixes = [[["create", 1, 0], ["advance", 1], ["create", 0, 1]], [["create", 1, 0], ["update", 0], ["create", 0, 1]],
                [["init", "2025-06-18", 1], ["dispatch", "ping", 0], ["init", "2025-03-26", 0]]]
    i = 0
    for prefix in prefixes:
        for L in range(1, maxlen + 1):
            for combo in itertools.product(range(len(ALPHABET)), repeat=L):
                i += 1
                if i % nshards != shard:
                    continue
                case = {"ops": prefix + [ALPHABET[j] for j in combo]}
                col.record(case, check(case))
    if shard == 0:
        col.exhaustive_parts.append(f"all sequences of length<={maxlen} over a {len(ALPHABET)}-operation alphabet after each of 3 two-session prefixes (plain, touched-before-second-create, created through initialize/ping)")


def job_machine(col: Collector, seed: int, tier: str, shard: int, n: int, steps: int) -> None:
    """Hypothesis rule-based state machine: rules pick their arguments from bundles of sessions that exist, so long
    histories stay meaningful (updates / boundary cleanups / dispatches hit live sessions, deletions consume them,
    a separate rule revisits gone ones).  Each run's history is handed, as plain data, to the same interpreter +
    dict model as every other job (so a failure is a replayable case with the usual signature)."""
    import hypothesis
    from hypothesis import HealthCheck, Phase, settings
    from hypothesis.stateful import Bundle, RuleBasedStateMachine, consumes, initialize, rule, run_state_machine_as_test

    class SessionStore(RuleBasedStateMachine):
        sessions = Bundle("sessions")

        def __init__(self) -> None:
            super().__init__()
            self.ops: List[List[Any]] = []
            self.n = 0

        def _new(self) -> int:
            self.n += 1
            return self.n - 1

        @initialize(target=sessions, ci=st.integers(0, 7), ver=st.integers(0, 3))
        def first(self, ci, ver):
            self.ops.append(["create", ci, ver])
            return self._new()

        @rule(target=sessions, ci=st.integers(0, 7), ver=st.integers(0, 3), meta=st.sampled_from([None, {}, {"k": "v"}, {"n": None}]))
        def create(self, ci, ver, meta):
            self.ops.append(["create", ci, ver] + ([meta] if meta is not None else []))
            return self._new()

        @rule(target=sessions, ver=st.sampled_from(VERSIONS + [None, "draft", 7]), ci=st.integers(0, 7))
        def initialize_request(self, ver, ci):
            self.ops.append(["init", ver, ci])
            return self._new()

        @rule(target=sessions, s=sessions, ver=st.sampled_from(VERSIONS + [None]), ci=st.integers(0, 7), how=st.sampled_from(["same", "other"]))
        def initialize_again_on(self, s, ver, ci, how):
            self.ops.append(["reinit", ver, ci, s, how])
            return self._new()

        @rule(s=sessions)
        def get(self, s):
            self.ops.append(["get", s])

        @rule(s=sessions)
        def update(self, s):
            self.ops.append(["update", s])

        @rule(s=consumes(sessions))
        def delete(self, s):
            self.ops.append(["delete", s])

        @rule(i=st.integers(0, 40), what=st.sampled_from(["get", "update", "delete"]))
        def revisit_any(self, i, what):
            self.ops.append([what, i if self.n else "unknown"])  # may be live, deleted or expired

        @rule(dt=_dt)
        def advance(self, dt):
            self.ops.append(["advance", dt])

        @rule(s=sessions, delta=st.sampled_from([-1, 0, 1]))
        def cleanup_at_boundary_of(self, s, delta):
            self.ops.append(["cleanup", ["idle_of", s, delta]])

        @rule(age=st.sampled_from([0, 1, 60, 3600, "default"]))
        def cleanup(self, age):
            self.ops.append(["cleanup", age])

        @rule(how=st.sampled_from(["add", "remove", "clear"]))
        def list_and_mutate(self, how):
            self.ops.append(["list_mutate", how])

        @rule(s=sessions, method=st.sampled_from(["ping", "ping", "nope/method", "boom/raise", "fine/ok", "slow/wait"]))
        def dispatch(self, s, method):
            self.ops.append(["dispatch", method, s])

        def teardown(self):
            if self.ops:
                case = {"ops": self.ops}
                o = check(case)
                o.classes = o.classes + ("state-machine",)
                col.record(case, o)

    run_state_machine_as_test(
        hypothesis.seed(seed * 1000 + 400 + shard)(SessionStore),
        settings=settings(max_examples=n, stateful_step_count=steps, database=None, deadline=None, derandomize=False, report_multiple_bugs=False,
                          suppress_health_check=list(HealthCheck), phases=[Phase.generate]),
    )


def job_soak(col: Collector, seed: int, tier: str) -> None:
    """long lives: hundreds of session-bound messages with hour-long gaps in between and no cleanup at all - whatever
    the store does "every n-th call" or "after a while" on its own shows up as a difference from the map"""
    for variant in range(6):
        ops: List[List[Any]] = [["create", 1, 0], ["create", 0, 1], ["init", "2025-06-18", 2]]
        for i in range(260 + 10 * variant):
            s_ = (i + variant) % 3
            if i % (7 + variant) == 0:
                ops.append(["advance", [3601, 7200, 59, 86400][(i // 7 + variant) % 4]])
            kind = (i + 2 * variant) % 5
            if kind in (0, 1):
                ops.append(["dispatch", "ping", s_])
            elif kind == 2:
                ops.append(["update", s_])
            elif kind == 3:
                ops.append(["dispatch", ["fine/ok", "boom/raise", "nope/method"][i % 3], s_])
            else:
                ops.append(["get", s_])
            if i % 97 == 96:
                ops.append(["create", i % 3, i % 4])
        ops.append(["cleanup", ["idle_of", 0, 0]])
        case = {"ops": ops}
        o = check(case)
        o.classes = o.classes + ("soak",)
        col.record(case, o)
    col.exhaustive_parts.append("6 long lives of ~300 session-bound operations with gaps of up to a day and a single cleanup at the very end")


def job_client_infos(col: Collector, seed: int, tier: str) -> None:
    """every client-info shape (empty, full, partial, explicit nulls, vendor members only) x every requested version through
    initialize, then traffic, a re-initialisation with the same record and an abandoned request followed by a cleanup"""
    for ci in range(len(CLIENT_INFOS)):
        for ver in VERSIONS + [None, "draft"]:
            ops = [["init", ver, ci], ["dispatch", "ping", 0], ["reinit", ver if ver in VERSIONS else None, ci, 0, "same"], ["get", 0], ["get", 1],
                   ["dispatch", "slow/wait", 0], ["advance", 4000], ["dispatch", "fine/ok", 1], ["cleanup", 3600], ["get", 0], ["get", 1]]
            case = {"ops": ops}
            col.record(case, check(case))
    col.exhaustive_parts.append(f"{len(CLIENT_INFOS)} client-info shapes x {len(VERSIONS) + 2} requested versions through initialize / re-initialise / abandoned request / expiry")


JOBS = {"client_infos": job_client_infos, "hyp": job_hyp, "exhaustive": job_exhaustive, "machine": job_machine, "soak": job_soak}


def jobs(tier: str):
    if tier == "quick":
        return [("hyp", {"shard": s, "n": 250, "max_len": 60}) for s in range(8)] + [("exhaustive", {"shard": s, "nshards": 6, "maxlen": 4}) for s in range(6)] + [("machine", {"shard": s, "n": 150, "steps": 50}) for s in range(2)] + [("soak", {}), ("client_infos", {})]
    return [("hyp", {"shard": s, "n": 4000, "max_len": 200}) for s in range(8)] + [("exhaustive", {"shard": s, "nshards": 16, "maxlen": 5}) for s in range(16)] + [("machine", {"shard": s, "n": 3000, "steps": 120}) for s in range(4)] + [("soak", {}), ("client_infos", {})]


def shrink(signature: str, seed: int):
    return hyp_shrink(seed * 1000, cases(60), check, signature, 2000)
