#!/bin/bash
# usage: tools/mutant.sh <patch.diff> <tier> <Cxx> [Cyy ...]
# Applies the patch to a scratch copy of /repo (never /repo itself), runs the named checks
# against it with evidence/replays redirected to a scratch dir, prints one line per check,
# and removes the copy.
set -u
patch=$(realpath "$1"); tier=$2; shift 2
work=$(mktemp -d /tmp/vmut.XXXXXX)
trap 'rm -rf "$work"' EXIT
rsync -a --exclude .git --exclude '__pycache__' --exclude '.venv' /repo/ "$work/repo/"
( cd "$work/repo" && patch -p1 -s < "$patch" ) || { echo "PATCH-FAILED $patch"; exit 3; }
for p in "$@"; do
  out=$(cd /verif && VERIF_REPO="$work/repo" VERIF_OUT="$work/out" timeout 3600 /venv/bin/python -m vpbt "$p" --tier "$tier" 2>&1)
  rc=$?
  sigs=$(echo "$out" | grep -o 'signature=[^ ]*' | sort -u | tr '\n' ' ')
  echo "MUTANT $(basename "$patch") $p tier=$tier rc=$rc $sigs"
  if [ "${VERBOSE:-0}" = 1 ]; then echo "$out" | tail -20; fi
done
