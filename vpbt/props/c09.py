"""C09 - Pydantic and fallback validation backends agree on all spec-valid traffic."""
from __future__ import annotations

import atexit
import re
from typing import Any, Dict, List, Optional, Tuple

from hypothesis import strategies as st

from ..backend_worker import Worker
from ..jsongen import id_is_interesting, request_ids
from ..jsonrpc_ref import first_diff, strict_eq
from ..modelgen import discover_models, explicit_nulls, fields_of, optional_subsets, wire_strategy
from ..runner import Collector, Outcome, hyp_run, hyp_shrink

ID = "C09"
LEVEL = "exploration"
RULE = (
    "case = (model class discovered by walking chuk_mcp.protocol.*, type-directed valid wire object: required fields + random optional subset, Literal members, "
    "Union arms, nested models, numeric bounds respected, wire names, random extra members) or (JSON-RPC envelope with every id shape through parse_message / the four "
    "classes / the unified class) or (documented invalid input of a stated invariant: Root uri not file://, 99/100/101 completion values); each case is validated by two "
    "worker processes (Pydantic v2 / MCP_FORCE_FALLBACK=1) and accept/reject, model-variant names at every level and the by-alias exclude-none dump are compared type-strictly; "
    "small models additionally get every optional-field subset; non-trivial = the case exercises a Union/Literal-typed field, an alias, an extra member, an interesting id "
    "(0, negative, digit string, >=2^63) or an invariant boundary; distinct = distinct (class, wire object)"
    "; added in rounds 6-7 of the seeded changes: every Optional member as an explicit null; integer ids spelt as floats"
)
ASSUMPTIONS = [
    "spec-valid = type-valid by the model's own annotations and bounds, optional members absent rather than null, URIs for fields named uri start with file://",
    "number-typed (float) fields may be given JSON integers; both backends must then agree with each other",
    "backend selection is real: the workers assert PYDANTIC_AVAILABLE after import",
]
EXHAUSTIVE = {"quick": False, "thorough": False}
META = {
    "text": "Differential testing of the two validation backends in separate processes over type-directed generated valid traffic for every discovered model class plus the envelopes; any accept/reject, variant or dump difference is a violation, bucketed by root cause.",
    "technique": "differential testing (two backend worker processes) with type-directed Hypothesis generators; exhaustive optional-field subsets for small models",
}

_W: Optional[Tuple[Worker, Worker]] = None
_MODELS: Optional[Dict[str, type]] = None


def workers() -> Tuple[Worker, Worker]:
    from ..backend_worker import get_workers

    ws = get_workers(((False, True), (True, True)))
    return ws[0], ws[1]


def models() -> Dict[str, type]:
    global _MODELS
    if _MODELS is None:
        _MODELS = discover_models()
    return _MODELS


PARSE = "chuk_mcp.protocol.messages.json_rpc_message:parse_message"


def _gist(msg: str) -> str:
    msg = re.sub(r"[0-9]+", "N", msg)
    msg = re.sub(r"\s+", " ", msg)
    return msg[:60]


def _find_paths(a: Any, b: Any, path: str = "") -> List[str]:
    """paths where two values differ."""
    if strict_eq(a, b):
        return []
    if isinstance(a, dict) and isinstance(b, dict):
        out: List[str] = []
        for k in sorted(set(a) | set(b), key=str):
            if k not in a or k not in b:
                out.append(f"{path}.{k}")
            else:
                out += _find_paths(a[k], b[k], f"{path}.{k}")
        return out
    if isinstance(a, list) and isinstance(b, list) and len(a) == len(b):
        out = []
        for i, (x, y) in enumerate(zip(a, b)):
            out += _find_paths(x, y, f"{path}[]")
        return out
    return [path or "$"]


def _first_variant_pair(a: Any, b: Any) -> Tuple[str, str]:
    if isinstance(a, dict) and isinstance(b, dict):
        if a.get("$model") != b.get("$model"):
            return str(a.get("$model")), str(b.get("$model"))
        for k in sorted(set(a) | set(b), key=str):
            if k in a and k in b and not strict_eq(a[k], b[k]):
                return _first_variant_pair(a[k], b[k])
            if (k in a) != (k in b):
                return (f"has:{k}" if k in a else "-"), (f"has:{k}" if k in b else "-")
    if isinstance(a, list) and isinstance(b, list):
        for x, y in zip(a, b):
            if not strict_eq(x, y):
                return _first_variant_pair(x, y)
    return "?", "?"


def classify_diff(target: str, data: Any, rp: Any, rf: Any) -> Tuple[str, str]:
    cls = target.split(":")[-1]
    if rp[0] != rf[0]:
        who = "pydantic" if rp[0] == "accept" else "fallback"
        rej = rf if rp[0] == "accept" else rp
        reason = _gist(rej[2])
        if isinstance(data, dict) and "result" in data and data["result"] is None:
            return "accepted-by-one-backend-only:result-null", f"{cls}: {who} accepts, other rejects ({rej[1]}: {rej[2][:120]})"
        if "must start with 'file://'" in rej[2]:
            return "invariant-enforced-by-one-backend-only:root-uri-file-scheme", f"{cls}: only {('fallback' if who == 'pydantic' else 'pydantic')} enforces: {rej[2][:120]}"
        if "must not exceed 100" in rej[2]:
            return "invariant-enforced-by-one-backend-only:completion-values-max-100", f"{cls}: only {('fallback' if who == 'pydantic' else 'pydantic')} enforces: {rej[2][:120]}"
        return f"accepted-by-{who}-only:{cls}:{reason}", f"{rej[1]}: {rej[2][:200]} data={data!r}"[:600]
    if rp[0] == "reject":
        return "", ""
    # both accept: variants then dumps
    if not strict_eq(rp[1], rf[1]):
        a, b = _first_variant_pair(rp[1], rf[1])
        return f"model-variant-differs:pydantic={a}:fallback={b}", f"{cls}: pydantic types {rp[1]!r} fallback types {rf[1]!r}"[:600]
    if not strict_eq(rp[2], rf[2]):
        paths = _find_paths(rp[2], rf[2])
        p0 = paths[0] if paths else "?"
        d = first_diff(rp[2], rf[2])
        if p0.endswith(".id") or p0 == ".id":
            return "id-json-type-changed-by-one-backend", f"{cls}: {d}"
        return f"dump-differs:{cls}:{p0}", f"{d}"[:600]
    return "", ""


def _unwrap(r: Any) -> Any:
    """validate results carry {"$tt": type tree, "$attrs": typed view}; C09 compares the type tree."""
    if r[0] == "accept" and isinstance(r[1], dict) and "$tt" in r[1]:
        return (r[0], r[1]["$tt"], r[2], r[3])
    return r


def check_sequence(case: Dict[str, Any]) -> Outcome:
    """The same sequence of validations in one FRESH process per backend: state leaking between
    model classes (caches keyed too coarsely) shows up as an order-dependent disagreement."""
    out = Outcome(nontrivial=True, classes=("kind:sequence", f"len:{len(case['seq'])}"))
    wp, wf = Worker(False, True), Worker(True, True)
    try:
        req = {"op": "validate", "cases": [(t, "validate", d) for t, d in case["seq"]]}
        rps, rfs = wp.request(req), wf.request(req)
    finally:
        wp.close()
        wf.close()
    for (t, d), rp, rf in zip(case["seq"], rps, rfs):
        rp, rf = _unwrap(rp), _unwrap(rf)
        sig, detail = classify_diff(t, d, rp, rf)
        if sig:
            out.fail(sig + ":in-sequence", f"sequence {[x[0].split(':')[-1] for x in case['seq']]}: {detail}")
            break
    return out


def check(case: Dict[str, Any]) -> Outcome:
    if "seq" in case:
        return check_sequence(case)
    out = Outcome()
    target, how, data = case["target"], case.get("how", "validate"), case["data"]
    wp, wf = workers()
    req = {"op": "validate", "cases": [(target, how, data)]}
    rp = _unwrap(wp.request(req)[0])
    rf = _unwrap(wf.request(req)[0])
    kind = case.get("kind", "model")
    out.classes = (f"kind:{kind}", f"pydantic:{rp[0]}", f"fallback:{rf[0]}")
    out.nontrivial = bool(case.get("nt", True))
    if rp[0] == "reject" and rf[0] == "reject":
        if kind == "invariant":
            return out
        # generator health: a supposedly valid object rejected by both backends
        out.classes = out.classes + ("both-reject",)
        out.nontrivial = False
        out.both_reject = (target, rp[2][:200])  # type: ignore
        return out
    sig, detail = classify_diff(target, data, rp, rf)
    if sig:
        out.fail(sig, detail)
    # JSON text of the dump must agree as a value too
    if rp[0] == "accept" and rf[0] == "accept" and isinstance(rp[3], str) and isinstance(rf[3], str):
        import json

        try:
            a, b = json.loads(rp[3]), json.loads(rf[3])
            if not strict_eq(a, b) and not sig:
                out.fail(f"json-dump-differs:{target.split(':')[-1]}", str(first_diff(a, b)))
        except Exception as e:  # noqa
            out.fail("json-dump-not-parsable", f"{e}")
    return out


# --------------------------------------------------------------------------------------- generators

def _nontrivial_model_case(cls: type, obj: Dict[str, Any]) -> bool:
    import typing

    fs = fields_of(cls)
    names = {f["wire"] for f in fs}
    if any(k not in names for k in obj):
        return True  # extra member
    for f in fs:
        if f["wire"] in obj:
            if f["alias"]:
                return True
            o = typing.get_origin(f["annotation"])
            if o in (typing.Union, typing.Literal):
                return True
            if "Union" in str(f["annotation"]) or "Literal" in str(f["annotation"]) or "chuk_mcp" in str(f["annotation"]):
                return True
    return False


def model_cases(target: str):
    cls = models()[target]
    return wire_strategy(cls, 3).map(lambda o: {"target": target, "how": "validate", "data": o, "kind": "model", "nt": _nontrivial_model_case(cls, o)})


ENV = "chuk_mcp.protocol.messages.json_rpc_message"
# integers as some serialisers spell them (1.0, 2e3): the same JSON numbers, schema-valid as "integer"
FLOAT_IDS = [1.0, 0.0, -3.0, 2e3, 1e15, float(2**53), -0.0, 7.0]


@st.composite
def envelope_cases(draw):
    from ..jsongen import json_objects, json_text, json_values

    shape = draw(st.sampled_from(["request", "notification", "result", "error", "result-scalar", "result-null"]))
    w: Dict[str, Any] = {"jsonrpc": "2.0"}
    i = None
    if shape != "notification":
        i = draw(request_ids)
        if draw(st.integers(0, 9)) == 0:
            i = draw(st.sampled_from(FLOAT_IDS))  # an integer the peer's serialiser spelt with a fraction part or an exponent
        w["id"] = i
    if shape in ("request", "notification"):
        w["method"] = draw(st.sampled_from(["ping", "tools/call", "notifications/cancelled", "x/y"]))
        if draw(st.booleans()):
            w["params"] = draw(json_objects(4))
    elif shape == "result":
        w["result"] = draw(json_objects(4))
    elif shape == "result-scalar":
        w["result"] = draw(st.one_of(st.lists(json_values(2), max_size=2), st.integers(-3, 3), json_text, st.booleans()))
    elif shape == "result-null":
        w["result"] = None
    else:
        w["error"] = draw(st.fixed_dictionaries({"code": st.integers(-32800, 100), "message": json_text}, optional={"data": json_values(3)}))
    cls_for = {"request": "JSONRPCRequest", "notification": "JSONRPCNotification", "result": "JSONRPCResponse", "result-scalar": "JSONRPCResponse",
               "result-null": "JSONRPCResponse", "error": "JSONRPCError"}[shape]
    via = draw(st.sampled_from(["parse", "specific", "unified"]))
    if via == "unified" and shape in ("result-scalar",):
        via = "parse"  # the unified class only types object results
    if via == "parse":
        target, how = PARSE, "parse_message"
    elif via == "specific":
        target, how = f"{ENV}:{cls_for}", "validate"
    else:
        target, how = f"{ENV}:JSONRPCMessage", "validate"
    return {"target": target, "how": how, "data": w, "kind": "envelope", "nt": (i is not None and (isinstance(i, float) or id_is_interesting(i))) or shape in ("result-null", "result-scalar")}


def invariant_cases() -> List[Dict[str, Any]]:
    R = "chuk_mcp.protocol.messages.roots.send_messages:Root"
    LR = "chuk_mcp.protocol.messages.roots.send_messages:ListRootsResult"
    C = "chuk_mcp.protocol.messages.completions.send_messages:CompletionResult"
    out = []
    for uri in ["file:///ok", "http://x/y", "", "FILE:///x", "file:/x", " file:///x", "ftp://a"]:
        out.append({"target": R, "how": "validate", "data": {"uri": uri}, "kind": "invariant"})
        out.append({"target": R, "how": "kwargs", "data": {"uri": uri, "name": "n"}, "kind": "invariant"})
        out.append({"target": LR, "how": "validate", "data": {"roots": [{"uri": "file:///a"}, {"uri": uri}]}, "kind": "invariant"})
    for n in (0, 1, 99, 100, 101, 150):
        out.append({"target": C, "how": "validate", "data": {"values": [f"v{i}" for i in range(n)]}, "kind": "invariant"})
        out.append({"target": C, "how": "kwargs", "data": {"values": [f"v{i}" for i in range(n)], "total": n, "hasMore": False}, "kind": "invariant"})
    return out


def job_models(col: Collector, seed: int, tier: str, shard: int, nshards: int, n: int) -> None:
    names = sorted(models())
    both_reject = 0
    for i, t in enumerate(names):
        if i % nshards != shard:
            continue
        cls = models()[t]
        # exhaustive optional subsets for small models
        for o in optional_subsets(cls) or []:
            case = {"target": t, "how": "validate", "data": o, "kind": "subset", "nt": _nontrivial_model_case(cls, o)}
            col.record(case, check(case))

        def chk(case):
            nonlocal both_reject
            o = check(case)
            if "both-reject" in o.classes:
                both_reject += 1
            return o

        try:
            hyp_run(col, seed * 1000 + i, model_cases(t), chk, n)
        except TypeError as e:
            col.uncovered.append(f"{t}: {e}")
    col.extra["both_reject"] = both_reject
    col.extra["model_classes"] = len(names) if shard == 0 else 0


def job_envelopes(col: Collector, seed: int, tier: str, shard: int, n: int) -> None:
    hyp_run(col, seed * 1000 + 900 + shard, envelope_cases(), check, n)
    if shard == 0:
        for case in invariant_cases():
            col.record(case, check(case))
        # float-spelt integer ids through every envelope shape and every way in
        for i in FLOAT_IDS:
            for shape, body in (("JSONRPCRequest", {"method": "ping"}), ("JSONRPCResponse", {"result": {}}), ("JSONRPCError", {"error": {"code": -1, "message": "m"}})):
                w = dict({"jsonrpc": "2.0", "id": i}, **body)
                for target, how in ((PARSE, "parse_message"), (f"{ENV}:{shape}", "validate"), (f"{ENV}:JSONRPCMessage", "validate")):
                    case = {"target": target, "how": how, "data": w, "kind": "envelope", "nt": True}
                    col.record(case, check(case))
        col.exhaustive_parts.append(f"{len(FLOAT_IDS)} float-spelt integer ids x 3 envelope shapes x 3 ways in")


def job_nulls(col: Collector, seed: int, tier: str, shard: int, nshards: int) -> None:
    """every nullable member of every model class present with an explicit null (alone, next to the required members)"""
    names = sorted(models())
    n = 0
    for i, t in enumerate(names):
        if i % nshards != shard:
            continue
        try:
            for _wire, o in explicit_nulls(models()[t]) or []:
                case = {"target": t, "how": "validate", "data": o, "kind": "explicit-null", "nt": True}
                col.record(case, check(case))
                n += 1
        except TypeError as e:
            col.uncovered.append(f"{t}: {e}")
    if shard == 0:
        col.exhaustive_parts.append("every Optional[...] member of every discovered model class set to an explicit null next to the required members")


@st.composite
def sequence_cases(draw):
    by: Dict[str, List[str]] = {}
    for t in models():
        by.setdefault(t.split(":")[-1], []).append(t)
    pool = [t for v in by.values() if len(v) > 1 for t in v]
    others = [t for t in sorted(models()) if t not in pool]
    k = draw(st.integers(2, 5))
    targets = [draw(st.sampled_from(pool)) for _ in range(k)]
    if draw(st.booleans()):
        targets.insert(draw(st.integers(0, len(targets))), draw(st.sampled_from(others)))
    return {"seq": [[t, draw(wire_strategy(models()[t], 2))] for t in targets]}


def job_sequences(col: Collector, seed: int, tier: str, shard: int, n: int) -> None:
    hyp_run(col, seed * 1000 + 950 + shard, sequence_cases(), check, n)


JOBS = {"nulls": job_nulls, "models": job_models, "envelopes": job_envelopes, "sequences": job_sequences}


def jobs(tier: str):
    if tier == "quick":
        return [("models", {"shard": s, "nshards": 6, "n": 120}) for s in range(6)] + [("envelopes", {"shard": s, "n": 500}) for s in range(2)] + [("sequences", {"shard": s, "n": 8}) for s in range(4)] + [("nulls", {"shard": s, "nshards": 2}) for s in range(2)]
    return [("models", {"shard": s, "nshards": 7, "n": 2500}) for s in range(7)] + [("envelopes", {"shard": s, "n": 15000}) for s in range(1)] + [("sequences", {"shard": s, "n": 250}) for s in range(4)] + [("nulls", {"shard": s, "nshards": 2}) for s in range(2)]


def shrink(signature: str, seed: int):
    if signature.startswith(("model-variant-differs", "invariant-")):
        return None
    if "JSONRPC" in signature or signature.startswith(("id-json", "accepted-by-one-backend-only:result-null")):
        return hyp_shrink(seed * 1000 + 900, envelope_cases(), check, signature, 1500)
    for t in models():
        if f":{t.split(':')[-1]}:" in signature + ":":
            return hyp_shrink(seed * 1000, model_cases(t), check, signature, 800)
    return None
