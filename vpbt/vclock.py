"""Virtual-time asyncio event loop.

`run_virtual(coro_fn)` runs a coroutine on a SelectorEventLoop whose clock is a
counter: whenever the loop would block waiting for a timer (no ready callbacks, no
I/O), the clock jumps to the next timer instead of sleeping.  anyio's asyncio backend
(fail_after, sleep, memory object streams, task groups) runs on it unmodified, so a
60 s timeout costs microseconds of wall time and every arrival instant is exact.

Real I/O (subprocess pipes, sockets) still works: when the selector has registered
file objects we poll them with a zero timeout first, and only if nothing is ready and a
timer is pending do we advance the clock.  Cases that use virtual time do not use real
I/O, so this matters only for robustness.
"""
from __future__ import annotations

import asyncio
import selectors
from typing import Any, Awaitable, Callable


class _VSelector(selectors.DefaultSelector):  # type: ignore[misc,valid-type]
    def __init__(self, loop_ref):
        super().__init__()
        self._loop_ref = loop_ref

    def select(self, timeout=None):
        # poll real fds without blocking
        events = super().select(0)
        if events:
            return events
        loop = self._loop_ref()
        if timeout is None:
            # nothing scheduled, nothing ready: the loop would block forever.  With only
            # the self-pipe registered this is a deadlock of the case, surface it.
            if loop is not None and len(self.get_map()) <= 1:
                raise VirtualDeadlock("virtual loop idle with no timers (deadlock)")
            return super().select(0.05)
        if timeout > 0 and loop is not None:
            target = loop._vtime + timeout
            sched = loop._scheduled
            if sched:
                w = sched[0]._when
                if abs(w - target) < 1e-6:
                    target = w  # land exactly on the timer (no float drift)
            loop._vtime = target
        return events


class VirtualDeadlock(RuntimeError):
    pass


class VirtualLoop(asyncio.SelectorEventLoop):
    def __init__(self):
        import weakref

        self._vtime = 0.0
        sel = _VSelector(weakref.ref(self))
        super().__init__(sel)

    def time(self) -> float:
        return self._vtime


def run_virtual(fn: Callable[[], Awaitable[Any]]) -> Any:
    """Run `fn()` to completion on a fresh virtual loop and return its result."""
    loop = VirtualLoop()
    try:
        asyncio.set_event_loop(loop)
        return loop.run_until_complete(fn())
    finally:
        try:
            # cancel leftovers so nothing outlives a case
            async def _reap():
                for _ in range(40):
                    pending = [t for t in asyncio.all_tasks(loop) if not t.done() and t is not asyncio.current_task()]
                    if not pending:
                        return
                    for t in pending:
                        t.cancel()
                    await asyncio.wait(pending, timeout=0.0137)

            loop.run_until_complete(_reap())
            loop.run_until_complete(loop.shutdown_asyncgens())
        except Exception:
            pass
        asyncio.set_event_loop(None)
        loop.close()


def vnow() -> float:
    return asyncio.get_running_loop().time()
