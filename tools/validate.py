#!/usr/bin/env python3
"""Validate MANIFEST.json and evidence/*.json against the schemas (run with python3-vt)."""
import json, sys, glob, os
import jsonschema
root = os.path.dirname(os.path.dirname(os.path.abspath(__file__)))
ms = json.load(open('/root/.vp/MANIFEST.schema.json'))
es = json.load(open('/root/.vp/EVIDENCE.schema.json'))
man = json.load(open(os.path.join(root, 'MANIFEST.json')))
jsonschema.validate(man, ms)
props = [json.loads(l)['id'] for l in open(os.path.join(root, 'properties.jsonl'))]
claimed = [c['property_id'] for c in man['checks']]
na = [c['property_id'] for c in man.get('not_applicable', [])]
assert sorted(claimed + na) == sorted(props), (sorted(set(props) - set(claimed) - set(na)), 'unaccounted')
bad = 0
for c in man['checks']:
    f = os.path.join(root, c['evidence_file']) if not c['evidence_file'].startswith('/') else c['evidence_file']
    if not os.path.exists(f):
        print('missing evidence', f); bad += 1; continue
    try:
        ev = json.load(open(f)); jsonschema.validate(ev, es)
        assert ev['level'] == c['level_claimed']['category'], (ev['level'], c['level_claimed']['category'])
    except Exception as e:
        print('invalid evidence', f, str(e)[:300]); bad += 1
print('manifest ok; claimed', len(claimed), 'n/a', len(na), 'bad evidence', bad)
sys.exit(1 if bad else 0)
