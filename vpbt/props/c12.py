"""C12 - SSE transport: live-or-raise setup, exactly-once delivery, chunk-independent."""
from __future__ import annotations

import asyncio
import json
from typing import Any, Dict, List, Optional, Tuple

import anyio
import httpx
from hypothesis import strategies as st

from ..drive import kill_task
from ..fakehttp import EventStream, install
from ..jsonrpc_ref import classify, strict_eq
from ..runner import Collector, Outcome, hyp_run, hyp_shrink
from ..vclock import VirtualDeadlock, run_virtual

ID = "C12"
LEVEL = "fault_enumeration"
RULE = (
    "case = (establishment outcome: endpoint announced as event / bare data with /messages/ or /mcp / query-only / absolute URL, HTTP 401/404/500, ConnectError, 200 with empty stream, "
    "200 that only sends comments forever, announcement after delay d relative to the timeout, response headers of the event stream themselves late) x (per-request mode: 200 body, 202 then event after delta, event then 202 after delta (the event carrying a result or an error), 202 and silence, "
    "4xx/5xx with JSON or text body, 200 with a text / empty / scalar body, POST raises an httpx error, an OSError or a RuntimeError; str and int ids) x (server-initiated notifications/requests interleaved on the event stream) x (every event's bytes re-chunked at generated offsets incl. inside "
    "UTF-8 characters and CRLF) x (exit path: normal or exception in body after the traffic or at a generated instant mid-request, outer cancellation before the first request / with a request in flight / after the response, plain cancellation of the owning task), all on a virtual clock over httpx.MockTransport; "
    "oracle: entering raises within timeout+eps or yields a connection on which a probe request gets a terminal message; exactly one response per request id (type-strict id); server messages once and in order; "
    "after exit both HTTP clients are closed, the event-stream generator is closed and no task created by the case is pending; non-trivial = establishment other than the plain endpoint event, or |delta|<=20 ms race, "
    "or a cut inside a character/CRLF, or a non-normal exit; distinct = distinct case"
    "; round 8: a second, unrelated SSE session in the same process (same request ids, never answered) closed at various moments of this one"
    "; added in rounds 6-7 of the seeded changes: server request ids drawn from the client's id pool; per-event spelling cycles; absolute-URL announcements with another origin"
)
ASSUMPTIONS = [
    "plain SSE encoding (event: x / data: y / blank line, LF or CRLF): exotic encodings are C11's subject",
    "no event is generated after the synthesised timeout of a 202-and-silence request",
    "real httpx client over MockTransport with a live async byte stream; virtual clock",
]
EXHAUSTIVE = {"quick": False, "thorough": False}
META = {
    "text": "Fault and schedule enumeration for the legacy SSE transport: establishment outcomes, request modes with 202/event races at 10 ms resolution, re-chunked event streams and exit paths, against per-request exactly-once and resource-release oracles.",
    "technique": "fault/schedule enumeration + Hypothesis chunkings on a virtual clock; real httpx over MockTransport with a live stream",
}

BASE = "http://test.invalid"
EST_KINDS = ["endpoint-event", "bare-messages", "bare-mcp", "query-only", "absolute-url", "absolute-url:port80", "absolute-url:other-host", "absolute-url:https", "absolute-url:port8080", "absolute-url:upper-host", "absolute-url:userinfo", "status-401", "status-404", "status-500", "connect-error", "empty-stream", "comments-forever", "endpoint-crlf"]
MODES = ["200-body", "202-then-event", "event-then-202", "202-silence", "status-400-json", "status-500-text", "post-raises", "200-body-error", "202-then-error-event", "error-event-then-202", "post-raises-oserror", "post-raises-runtime", "200-text-body", "200-empty-body", "200-json-scalar", "200-json-emptyobj", "200-json-nonmessage", "200-json-array", "200-json-null"]


def endpoint_bytes(kind: str) -> Tuple[bytes, str]:
    if kind in ("endpoint-event", "delayed"):
        return b"event: endpoint\ndata: /messages/?session_id=abc123\n\n", f"{BASE}/messages/?session_id=abc123"
    if kind == "endpoint-crlf":
        return b"event: endpoint\r\ndata: /messages/?session_id=abc123\r\n\r\n", f"{BASE}/messages/?session_id=abc123"
    if kind == "bare-messages":
        return b"data: /messages/?session_id=s2\n\n", f"{BASE}/messages/?session_id=s2"
    if kind == "bare-mcp":
        return b"data: /mcp?session_id=s3\n\n", f"{BASE}/mcp?session_id=s3"
    if kind == "query-only":
        return b"event: endpoint\ndata: session_id=q4\n\n", f"{BASE}/messages/?session_id=q4"
    if kind == "absolute-url":
        return b"event: endpoint\ndata: http://test.invalid/custom/post?x=1\n\n", "http://test.invalid/custom/post?x=1"
    # absolute URLs whose origin is not textually the configured one: the default port spelt out, a dedicated message
    # host, https, another port, upper-case host - the server says where to POST, and that is where the POSTs must go
    if kind.startswith("absolute-url:"):
        url = {"port80": "http://test.invalid:80/messages/?session_id=p80", "other-host": "http://rpc.test.invalid/messages/?session_id=oh",
               "https": "https://test.invalid/messages/?session_id=tls", "port8080": "http://test.invalid:8080/mcp/messages/?s=1",
               "upper-host": "http://TEST.invalid/messages/?session_id=up", "userinfo": "http://u@test.invalid/messages/?session_id=ui"}[kind.split(":", 1)[1]]
        # (httpx normalises what it sends: the default port is dropped, the host lower-cased)
        sent = url.replace("http://test.invalid:80/", "http://test.invalid/").replace("http://TEST.invalid/", "http://test.invalid/")
        return b"event: endpoint\ndata: " + url.encode() + b"\n\n", sent
    raise ValueError(kind)


def chunked(data: bytes, cuts: List[int]) -> List[bytes]:
    pos = [0] + sorted(set(c % len(data) for c in cuts if len(data) > 1 and c % len(data) != 0)) + [len(data)]
    return [data[a:b] for a, b in zip(pos, pos[1:]) if b > a]


def check(case: Dict[str, Any]) -> Outcome:
    from chuk_mcp.protocol.messages.json_rpc_message import parse_message
    from chuk_mcp.transports.sse.parameters import SSEParameters
    from chuk_mcp.transports.sse.sse_client import sse_client

    if "fuzz" in case:
        from ..fuzz.job import check_fuzz_case

        return check_fuzz_case(case)
    if case.get("loop"):
        return check_loopback(case)
    out = Outcome()
    est = case["est"]
    T = case.get("timeout", 2.0)
    reqs: List[Dict[str, Any]] = case.get("requests", [])
    srv: List[Dict[str, Any]] = case.get("server_msgs", [])
    cuts: List[int] = case.get("cuts", [])
    exit_path = case.get("exit", "normal")
    eol = b"\r\n" if case.get("crlf") else b"\n"

    es = EventStream()
    posts: List[Dict[str, Any]] = []
    state: Dict[str, Any] = {"entered": False, "enter_exc": None, "t_enter_done": None, "received": [], "probe": None, "body_exc": None, "cancelled": False}
    feed_tasks: List[asyncio.Task] = []

    def feed(data: bytes) -> None:
        for piece in chunked(data, cuts):
            es.feed(piece)

    forms: List[str] = case.get("forms") or ["typed"]
    nev = [0]

    def event_bytes(msg: Dict[str, Any]) -> bytes:
        # each event on the stream takes the next form of the case's cycle: with its event type, as a bare data event (the
        # form the transport accepts for servers that do not type their events), after a keep-alive event, after a comment
        d = json.dumps(msg, ensure_ascii=False).encode("utf-8")
        form = forms[nev[0] % len(forms)]
        nev[0] += 1
        typed = b"event: message" + eol + b"data: " + d + eol + eol
        bare = b"data: " + d + eol + eol
        if form == "bare":
            return bare
        if form == "keepalive-bare":
            return b"event: keepalive" + eol + b"data: {}" + eol + eol + bare
        if form == "comment-bare":
            return b": ping" + eol + eol + bare
        if form == "comment-typed":
            return b": ping" + eol + typed
        return typed

    by_id = {json.dumps(r["id"]): r for r in reqs}
    will_announce = est["kind"] in ("endpoint-event", "bare-messages", "bare-mcp", "query-only", "absolute-url", "endpoint-crlf", "delayed") or est["kind"].startswith("absolute-url:")
    delay = est.get("delay", 0.0)
    expect_url = endpoint_bytes(est["kind"])[1] if will_announce else None

    es2 = EventStream()

    async def handler(request: httpx.Request) -> httpx.Response:
        loop = asyncio.get_running_loop()
        if request.url.host == "bystander.invalid":
            # another server altogether, used by another session of the same process: announces its endpoint, acknowledges
            # every POST with 202 and never answers
            if request.method == "GET":
                es2.feed(b"event: endpoint\ndata: /messages?session=bystander\n\n")
                return httpx.Response(200, headers={"content-type": "text/event-stream"}, content=es2.gen())
            return httpx.Response(202)
        if request.method == "GET":
            k = est["kind"]
            if est.get("get_delay"):
                await asyncio.sleep(est["get_delay"])  # the response headers of the event stream arrive late
            if k == "connect-error":
                raise httpx.ConnectError("refused", request=request)
            if k.startswith("status-"):
                return httpx.Response(int(k.split("-")[1]), text="nope")
            if k == "empty-stream":
                es.close()
            elif k == "comments-forever":
                async def ka():
                    for _ in range(200):
                        es.feed(b": keep-alive\n\n")
                        await asyncio.sleep(0.25)
                feed_tasks.append(asyncio.ensure_future(ka()))
            else:
                data, _ = endpoint_bytes(k)
                if delay > 0:
                    async def later():
                        await asyncio.sleep(delay)
                        feed(data)
                    feed_tasks.append(asyncio.ensure_future(later()))
                else:
                    feed(data)
            return httpx.Response(200, headers={"content-type": "text/event-stream"}, content=es.gen())
        # POST
        try:
            w = json.loads(request.content)
        except Exception:
            w = {}
        posts.append({"url": str(request.url), "wire": w, "t": loop.time()})
        rid = w.get("id") if isinstance(w, dict) else None
        if rid is None or "method" not in w:
            return httpx.Response(202)
        if rid == "probe-id":
            return httpx.Response(200, json={"jsonrpc": "2.0", "id": rid, "result": {"probe": True}})
        r = by_id.get(json.dumps(rid))
        if r is None:
            return httpx.Response(200, json={"jsonrpc": "2.0", "id": rid, "result": {}})
        mode = r["mode"]
        delta = r.get("delta", 0.0)
        resp = {"jsonrpc": "2.0", "id": rid, "result": {"for": rid, "t": "é\U0001F600", "ls": "a\u2028b\u2029c\u0085d\x0bf\x0cg"}}
        if mode == "200-body":
            return httpx.Response(200, json=resp)
        if mode == "200-body-error":
            return httpx.Response(200, json={"jsonrpc": "2.0", "id": rid, "error": {"code": -32001, "message": "srv"}})
        if mode in ("202-then-error-event", "error-event-then-202"):
            # the server's answer on the event stream is a JSON-RPC error
            resp = {"jsonrpc": "2.0", "id": rid, "error": {"code": -32001, "message": "srv é"}}
        if mode in ("202-then-event", "202-then-error-event"):
            async def later2():
                await asyncio.sleep(delta)
                feed(event_bytes(resp))
            feed_tasks.append(asyncio.ensure_future(later2()))
            return httpx.Response(202)
        if mode in ("event-then-202", "error-event-then-202"):
            feed(event_bytes(resp))
            await asyncio.sleep(delta)
            return httpx.Response(202)
        if mode == "202-silence":
            return httpx.Response(202)
        if mode == "status-400-json":
            return httpx.Response(400, json={"jsonrpc": "2.0", "id": rid, "error": {"code": -32600, "message": "bad"}})
        if mode == "status-500-text":
            return httpx.Response(500, text="internal <b>error</b>")
        if mode == "post-raises":
            raise httpx.ReadTimeout("read timed out", request=request)
        if mode == "post-raises-oserror":
            raise OSError(101, "Network is unreachable")  # from below the HTTP library
        if mode == "post-raises-runtime":
            raise RuntimeError("connection pool is closed")
        if mode == "200-text-body":
            return httpx.Response(200, text="OK")
        if mode == "200-empty-body":
            return httpx.Response(200, content=b"")
        if mode == "200-json-scalar":
            return httpx.Response(200, json=5)
        if mode == "200-json-emptyobj":
            return httpx.Response(200, json={})
        if mode == "200-json-nonmessage":
            return httpx.Response(200, json={"status": "ok", "id": rid})
        if mode == "200-json-array":
            return httpx.Response(200, json=[resp])
        if mode == "200-json-null":
            return httpx.Response(200, content=b"null", headers={"content-type": "application/json"})
        raise ValueError(mode)

    tasks_before: set = set()

    async def main():
        nonlocal tasks_before
        loop = asyncio.get_running_loop()
        tasks_before = set(asyncio.all_tasks())
        with install("sse", handler) as shim:
            state["shim"] = shim
            scope = anyio.CancelScope()
            cancel_at = case.get("cancel_at")

            async def canceller():
                await asyncio.sleep(cancel_at)
                scope.cancel()

            ctask = asyncio.ensure_future(canceller()) if (exit_path == "cancel" and cancel_at is not None) else None
            t0 = loop.time()
            exit_at = case.get("exit_at")  # normal / exception exits: leave the body this long after entering, whatever is in flight

            async def session():
              try:
                with scope:
                    try:
                        async with sse_client(SSEParameters(url=BASE, timeout=T)) as (r, w):
                            state["entered"] = True
                            state["t_enter_done"] = loop.time() - t0

                            async def consume():
                                try:
                                    async for m in r:
                                        state["received"].append((loop.time(), m.model_dump(exclude_none=True) if hasattr(m, "model_dump") else m))
                                except Exception:
                                    pass

                            cons = asyncio.ensure_future(consume())
                            try:
                                # server-initiated traffic
                                async def srv_feeder():
                                    for sm in srv:
                                        await asyncio.sleep(sm["dt"])
                                        feed(event_bytes(sm["wire"]))

                                sf = asyncio.ensure_future(srv_feeder())
                                feed_tasks.append(sf)

                                async def requests():
                                    for rq in reqs:
                                        await w.send(parse_message({"jsonrpc": "2.0", "id": rq["id"], "method": "tools/list", "params": {}}))
                                        # (error answers: stay long enough to see a second, synthesised terminal message if one were to follow)
                                        wait = T + 0.5 if rq["mode"] in ("202-silence", "202-then-error-event", "error-event-then-202") else max(0.3, rq.get("delta", 0) + 0.3)
                                        await asyncio.sleep(wait)

                                if exit_at is not None and exit_path in ("normal", "exception"):
                                    rt = asyncio.ensure_future(requests())
                                    feed_tasks.append(rt)
                                    await asyncio.sleep(exit_at)
                                    state["early_exit"] = True
                                    if exit_path == "exception":
                                        raise KeyError("body failed")
                                    return
                                await requests()
                                # liveness probe
                                n0 = len(state["received"])
                                await w.send(parse_message({"jsonrpc": "2.0", "id": "probe-id", "method": "ping"}))
                                await asyncio.sleep(0.3)
                                await asyncio.sleep(sum(sm["dt"] for sm in srv) + 0.1)
                                state["probe"] = [m for _, m in state["received"] if isinstance(m, dict) and m.get("id") == "probe-id"]
                                if exit_path == "exception":
                                    raise KeyError("body failed")
                                if exit_path == "cancel" and cancel_at is None:
                                    scope.cancel()
                                    await asyncio.sleep(0)
                            finally:
                                cons.cancel()
                                try:
                                    await cons
                                except BaseException:
                                    pass
                    except KeyError as e:
                        state["body_exc"] = e
                    except BaseException as e:  # noqa
                        if not state["entered"]:
                            state["enter_exc"] = e
                            state["t_enter_done"] = loop.time() - t0
                            if isinstance(e, (asyncio.CancelledError,)):
                                raise
                        else:
                            raise
                state["cancelled"] = scope.cancelled_caught
              except asyncio.CancelledError:
                if exit_path != "task-cancel":
                    raise
                state["cancelled"] = True

            btask = None
            if case.get("bystander") is not None:
                # a second, unrelated SSE session lives in the same process: it sends requests bearing the same ids to ITS server
                # (never answered) and is closed while this case's session goes on.  Nothing about it may show in this session.
                async def bystander():
                    try:
                        async with sse_client(SSEParameters(url="http://bystander.invalid", timeout=T)) as (_r2, w2):
                            for rq in reqs:
                                await w2.send(parse_message({"jsonrpc": "2.0", "id": rq["id"], "method": "tools/list", "params": {}}))
                            await asyncio.sleep(case["bystander"])
                    except Exception:  # noqa
                        pass

                btask = asyncio.ensure_future(bystander())
                await asyncio.sleep(0.02)
            stask = asyncio.ensure_future(session())
            try:
                if exit_path == "task-cancel":
                    # plain asyncio cancellation of the task that owns the context, delivered once
                    async def tcancel():
                        await asyncio.sleep(cancel_at or 0.0)
                        stask.cancel()

                    feed_tasks.append(asyncio.ensure_future(tcancel()))
                done_, _p = await asyncio.wait([stask], timeout=3 * T + 30)
                if not done_:
                    state["hung"] = True
                    await kill_task(stask)
                else:
                    stask.result()
            finally:
                if btask is not None:
                    await asyncio.wait([btask], timeout=3 * T + 30)
                    if not btask.done():
                        await kill_task(btask)
                    es2.close()
                if ctask is not None:
                    ctask.cancel()
                for ft in feed_tasks:
                    ft.cancel()
                for ft in feed_tasks + ([ctask] if ctask else []):
                    try:
                        await ft
                    except BaseException:
                        pass
            await asyncio.sleep(0.05)
            state["clients_closed"] = [c.is_closed for c in shim.clients]
            state["n_clients"] = len(shim.clients)
            me = asyncio.current_task()
            state["leftover_tasks"] = [t.get_name() + ":" + repr(t.get_coro())[:80] for t in asyncio.all_tasks() if t not in tasks_before and t is not me and not t.done()]

    try:
        run_virtual(main)
    except VirtualDeadlock as e:
        out.fail("leaving-the-context-hangs", f"exit={exit_path} exit_at={case.get('exit_at')} cancel_at={case.get('cancel_at')}: nothing left that could wake the program ({e})")
        return out
    except Exception as e:  # noqa
        out.fail("sse-client-harness-raised", f"{type(e).__name__}: {e}")
        return out
    if state.get("hung"):
        out.fail("leaving-the-context-hangs", f"exit={exit_path} exit_at={case.get('exit_at')} cancel_at={case.get('cancel_at')}: the context had not been left {3 * T + 30}s (virtual) later")
        return out

    # ------------------------------------------------------------------ classes
    race = any(r["mode"] in ("202-then-event", "event-then-202", "202-then-error-event", "error-event-then-202") and r.get("delta", 0) <= 0.02 for r in reqs)
    out.nontrivial = est["kind"] != "endpoint-event" or race or bool(cuts) or exit_path != "normal"
    collide = any(strict_eq(sm["wire"].get("id"), r["id"]) for sm in srv for r in reqs if "id" in sm["wire"])
    out.classes = (("another-session-in-the-process",) if case.get("bystander") is not None else ()) + (f"est:{est['kind']}", f"exit:{exit_path}" + (":mid-request" if state.get("early_exit") and reqs else ""), "race" if race else "no-race", "chunked" if cuts else "unchunked",
                   "forms:" + ("typed-only" if set(forms) == {"typed"} else "mixed"), "server-request-id-equals-client-request-id" if collide else "ids-disjoint") + tuple(sorted({"mode:" + r["mode"] for r in reqs}))

    # ------------------------------------------------------------------ establishment
    t_announce = delay + est.get("get_delay", 0.0)  # the announcement cannot precede the response headers
    must_raise = (not will_announce) or t_announce > T + 1e-9
    may_either = will_announce and abs(t_announce - T) <= 1e-9
    cancelled_during_entry = exit_path in ("cancel", "task-cancel") and (case.get("cancel_at") is not None or exit_path == "task-cancel") and not state["entered"]
    if not state["entered"]:
        if cancelled_during_entry:
            pass
        elif not must_raise and not may_either:
            out.fail("establishment-failed-although-endpoint-announced", f"{est}: {state['enter_exc']!r}")
        elif state["t_enter_done"] is not None and state["t_enter_done"] > T + 0.25:
            out.fail("establishment-failure-later-than-timeout", f"{est}: raised after {state['t_enter_done']}s (timeout {T})")
    else:
        if must_raise:
            sig = "dead-connection-yielded"
            out.fail(sig, f"{est}: context entered after {state['t_enter_done']}s although no endpoint was announced; probe answered: {bool(state['probe'])}")
        elif state["probe"] is not None and len(state["probe"]) != 1 and not state["cancelled"] and not (exit_path == "cancel" and case.get("cancel_at") is not None) and exit_path != "task-cancel":
            out.fail("live-connection-probe-not-answered", f"{est}: probe got {state['probe']!r}")
        if expect_url and posts and not must_raise:
            bad = [p["url"] for p in posts if p["url"] != expect_url]
            if bad:
                out.fail("post-url-differs-from-announced-endpoint", f"announced {expect_url!r}, posted to {bad[0]!r}")

    # ------------------------------------------------------------------ per request exactly-once
    timed_cancel = (exit_path == "cancel" and case.get("cancel_at") is not None) or exit_path == "task-cancel" or bool(state.get("early_exit"))
    if state["entered"] and not must_raise and not timed_cancel:
        msgs = [m for _, m in state["received"]]
        for rq in reqs:
            mine = [m for m in msgs if isinstance(m, dict) and "method" not in m and (strict_eq(m.get("id"), rq["id"]) or str(m.get("id")) == str(rq["id"]))]
            strict = [m for m in mine if strict_eq(m.get("id"), rq["id"])]
            label = rq["mode"]
            if len(mine) == 0:
                out.fail(f"no-terminal-message:{label}", f"request {rq['id']!r}: nothing delivered; received={json.dumps(msgs)[:300]}")
            elif len(mine) > 1:
                out.fail(f"duplicate-terminal-message:{label}", f"request {rq['id']!r}: {json.dumps(mine)[:300]}")
            elif not strict:
                out.fail("terminal-message-id-type-changed", f"request id {rq['id']!r} ({type(rq['id']).__name__}) answered with id {mine[0].get('id')!r} ({type(mine[0].get('id')).__name__}) in mode {label}")
            elif classify(mine[0])[0] not in ("result", "error"):
                out.fail(f"terminal-message-invalid:{label}", json.dumps(mine[0])[:300])
            elif rq["mode"] in ("200-body", "202-then-event", "event-then-202") and classify(mine[0])[0] != "result":
                out.fail(f"server-response-replaced-by-error:{label}", json.dumps(mine[0])[:300])
            elif rq["mode"] in ("202-then-error-event", "error-event-then-202") and not (classify(mine[0])[0] == "error" and mine[0]["error"].get("code") == -32001):
                out.fail(f"server-error-answer-replaced:{label}", json.dumps(mine[0])[:300])
        # server-initiated messages once and in order
        want = [sm["wire"] for sm in srv]
        got = [m for m in msgs if isinstance(m, dict) and "method" in m]
        if len(got) != len(want) or not all(strict_eq(a, b) for a, b in zip(got, want)):
            if len(got) > len(want):
                sig = "server-message-duplicated"
            elif len(got) < len(want):
                sig = "server-message-lost" + (":chunk-boundary" if cuts else "")
            else:
                sig = "server-messages-altered-or-reordered" + (":chunk-boundary" if cuts else "")
            out.fail(sig, f"cuts={cuts} got {json.dumps(got)[:300]} want {json.dumps(want)[:300]}")

    # ------------------------------------------------------------------ release
    if exit_path == "exception" and state["entered"] and not must_raise and state["body_exc"] is None and not state.get("hung"):
        out.fail("exception-in-body-swallowed", "")
    if state.get("n_clients", 0) and not all(state["clients_closed"]):
        out.fail("http-client-left-open", f"closed flags {state['clients_closed']} exit={exit_path} entered={state['entered']}")
    if es.started and not es.closed_by_client:
        out.fail("event-stream-not-closed", f"exit={exit_path} entered={state['entered']}")
    if state.get("leftover_tasks"):
        out.fail("task-left-running", f"{state['leftover_tasks'][:3]} exit={exit_path} entered={state['entered']}")
    return out


# --------------------------------------------------------------------------------------- generators

_FORMS = ["typed", "bare", "keepalive-bare", "comment-bare", "comment-typed"]
_deltas = st.sampled_from([0.0, 0.0, 0.01, 0.02, 0.05, 0.2, 1.0])
_ids = st.one_of(st.sampled_from(["a", "r-1", "123", "é"]), st.integers(0, 50))


@st.composite
def cases(draw):
    k = draw(st.sampled_from(EST_KINDS + ["endpoint-event"] * 6 + ["delayed", "delayed"]))
    est: Dict[str, Any] = {"kind": k}
    T = 2.0
    if k == "delayed":
        est["delay"] = draw(st.sampled_from([0.01, 1.0, 1.99, 2.0, 2.01, 3.0]))
    if draw(st.integers(0, 3)) == 0:
        est["get_delay"] = draw(st.sampled_from([0.3, 0.7, 1.5, 2.5]))
    n = draw(st.integers(0, 3))
    reqs = []
    used = set()
    for i in range(n):
        rid = draw(_ids)
        if json.dumps(rid) in used or str(rid) in {str(u) for u in used}:
            rid = f"u{i}"
        used.add(json.dumps(rid))
        reqs.append({"id": rid, "mode": draw(st.sampled_from(MODES + ["202-then-event", "event-then-202"])), "delta": draw(_deltas)})
    srv = []
    for j in range(draw(st.integers(0, 3))):
        if draw(st.booleans()):
            wire = {"jsonrpc": "2.0", "method": "notifications/message", "params": {"level": "info", "data": f"n{j} é\U0001F600" + draw(st.sampled_from(["", "", "\u2028x", "\u0085y\u2029", "\x0c"]))}}
        else:
            # the server numbers its own requests independently of the client: the two id spaces may overlap
            wire = {"jsonrpc": "2.0", "id": draw(st.one_of(st.just(f"srv-{j}"), _ids)), "method": "roots/list"}
        srv.append({"dt": draw(st.sampled_from([0.0, 0.01, 0.1])), "wire": wire})
    cuts = draw(st.lists(st.integers(1, 200), max_size=5))
    exit_path = draw(st.sampled_from(["normal", "normal", "normal", "exception", "exception", "cancel", "cancel", "task-cancel"]))
    case: Dict[str, Any] = {"est": est, "timeout": T, "requests": reqs, "server_msgs": srv, "cuts": cuts, "exit": exit_path, "crlf": draw(st.booleans())}
    if draw(st.booleans()):
        case["forms"] = draw(st.lists(st.sampled_from(_FORMS), min_size=1, max_size=4))
    if exit_path == "cancel":
        case["cancel_at"] = draw(st.sampled_from([None, 0.0, 0.005, 0.05, 0.31, 1.0, 2.6]))
    elif exit_path == "task-cancel":
        case["cancel_at"] = draw(st.sampled_from([0.0, 0.005, 0.05, 0.31, 1.0, 2.6]))
    elif draw(st.booleans()):
        case["exit_at"] = draw(st.sampled_from([0.0, 0.005, 0.05, 0.31, 1.0, 2.6]))
    if draw(st.integers(0, 4)) == 0:
        case["bystander"] = draw(st.sampled_from([0.05, 0.2, 0.6, 1.0, 2.4, 5.0]))
    return case


def job_hyp(col: Collector, seed: int, tier: str, shard: int, n: int) -> None:
    hyp_run(col, seed * 1000 + shard, cases(), check, n)


def job_matrix(col: Collector, seed: int, tier: str, shard: int, nshards: int) -> None:
    i = 0
    for k in EST_KINDS + ["delayed"]:
        for d in ([0.01, 1.99, 2.0, 2.01] if k == "delayed" else [0.0]):
            for mode in MODES:
                for rid in ("r-1", 7):
                    for exit_path in ("normal", "exception", "cancel", "normal@", "exception@", "task-cancel"):
                        i += 1
                        if i % nshards != shard:
                            continue
                        est = {"kind": k}
                        if k == "delayed":
                            est["delay"] = d
                        case = {"est": est, "timeout": 2.0, "requests": [{"id": rid, "mode": mode, "delta": 0.01}],
                                "server_msgs": [{"dt": 0.0, "wire": {"jsonrpc": "2.0", "method": "notifications/message", "params": {"level": "info", "data": "é\u2028\u0085"}}}],
                                "cuts": [3, 17, 40] if i % 2 else [], "exit": exit_path.rstrip("@"), "crlf": bool(i % 3 == 0)}
                        if exit_path == "cancel":
                            case["cancel_at"] = [None, 0.05, 0.31][i % 3]
                        elif exit_path == "task-cancel":
                            case["cancel_at"] = [0.005, 0.05, 0.31][i % 3]
                        elif exit_path.endswith("@"):
                            case["exit_at"] = [0.005, 0.05, 0.31][i % 3]
                        col.record(case, check(case))
    # another SSE session of the same process (same request ids, never answered), closed at various moments of this one
    for mode in MODES:
        for rid in ("r-1", 7):
            for dl, by in ((0.5, 0.2), (0.01, 0.2), (0.5, 1.0), (0.3, 5.0), (1.0, 0.05)):
                i += 1
                if i % nshards != shard:
                    continue
                case = {"est": {"kind": "endpoint-event"}, "timeout": 2.0, "requests": [{"id": rid, "mode": mode, "delta": dl}, {"id": "second", "mode": "202-then-event", "delta": 0.4}],
                        "server_msgs": [{"dt": 0.1, "wire": {"jsonrpc": "2.0", "method": "notifications/message", "params": {"level": "info", "data": "x"}}}], "cuts": [], "exit": "normal", "crlf": False, "bystander": by}
                col.record(case, check(case))
    # late response headers on the event stream x what follows
    for k in ("comments-forever", "empty-stream", "endpoint-event", "delayed", "status-500"):
        for gd in (0.3, 0.7, 1.5, 2.5):
            for d in ([0.5, 1.4, 1.8] if k == "delayed" else [0.0]):
                i += 1
                if i % nshards != shard:
                    continue
                est = {"kind": k, "get_delay": gd}
                if k == "delayed":
                    est["delay"] = d
                case = {"est": est, "timeout": 2.0, "requests": [{"id": "r-1", "mode": "200-body", "delta": 0.0}], "server_msgs": [], "cuts": [], "exit": "normal", "crlf": False}
                col.record(case, check(case))
    if shard == 0:
        col.exhaustive_parts.append("establishment kinds (incl. delays around the timeout) x 8 request modes x {str,int} id x 6 exit paths (normal / exception after the traffic or mid-request, anyio scope cancellation, plain task cancellation)")


def check_loopback(case: Dict[str, Any]) -> Outcome:
    """The same delivery oracle over a real loopback HTTP server: real sockets, chunked transfer encoding,
    every event written as the generated TCP segments (real time, so only the fast request modes)."""
    from chuk_mcp.protocol.messages.json_rpc_message import parse_message
    from chuk_mcp.transports.sse.parameters import SSEParameters
    from chuk_mcp.transports.sse.sse_client import sse_client

    from ..loopback import RawHTTPServer, Reply

    out = Outcome()
    reqs: List[Dict[str, Any]] = case.get("requests", [])
    srv: List[Dict[str, Any]] = case.get("server_msgs", [])
    cuts: List[int] = case.get("cuts", [])
    eol = b"\r\n" if case.get("crlf") else b"\n"
    by_id = {json.dumps(r["id"]): r for r in reqs}
    received: List[Any] = []
    state: Dict[str, Any] = {}

    def event_bytes(msg: Dict[str, Any]) -> bytes:
        d = json.dumps(msg, ensure_ascii=False).encode("utf-8")
        return b"event: message" + eol + b"data: " + d + eol + eol

    async def main():
        q: asyncio.Queue = asyncio.Queue()

        async def stream(sw):
            for piece in chunked(b"event: endpoint" + eol + b"data: /messages/?session_id=lb1" + eol + eol, cuts):
                await sw.send(piece)
                await asyncio.sleep(0.002)
            while True:
                blob = await q.get()
                if blob is None:
                    return
                for piece in chunked(blob, cuts):
                    await sw.send(piece)
                    await asyncio.sleep(0.002)

        async def handler(method, path, headers, body):
            if method == "GET":
                return Reply(200, {"content-type": "text/event-stream"}, stream=stream)
            try:
                w = json.loads(body)
            except Exception:
                w = {}
            rid = w.get("id") if isinstance(w, dict) else None
            if rid is None or "method" not in w:
                return Reply(202)
            if rid == "probe-id":
                return Reply(200, {"content-type": "application/json"}, json.dumps({"jsonrpc": "2.0", "id": rid, "result": {"probe": True}}).encode())
            r = by_id.get(json.dumps(rid))
            resp = {"jsonrpc": "2.0", "id": rid, "result": {"for": rid, "t": "\u00e9\U0001F600\u2028"}}
            mode = r["mode"] if r else "200-body"
            if mode == "202-then-event":
                asyncio.get_running_loop().call_later(r.get("delta", 0.0), q.put_nowait, event_bytes(resp))
                return Reply(202)
            if mode == "event-then-202":
                q.put_nowait(event_bytes(resp))
                return Reply(202, delay=r.get("delta", 0.0))
            if mode == "status-500-text":
                return Reply(500, {"content-type": "text/plain"}, b"internal error")
            return Reply(200, {"content-type": "application/json"}, json.dumps(resp, ensure_ascii=False).encode("utf-8"))

        async with RawHTTPServer(handler) as server:
            async with sse_client(SSEParameters(url=server.url, timeout=3.0)) as (r, w):
                async def consume():
                    try:
                        async for m in r:
                            received.append(m.model_dump(exclude_none=True) if hasattr(m, "model_dump") else m)
                    except Exception:
                        pass

                cons = asyncio.ensure_future(consume())
                for sm in srv:
                    q.put_nowait(event_bytes(sm["wire"]))
                for rq in reqs:
                    await w.send(parse_message({"jsonrpc": "2.0", "id": rq["id"], "method": "tools/list", "params": {}}))
                    await asyncio.sleep(0.12 + rq.get("delta", 0.0))
                await w.send(parse_message({"jsonrpc": "2.0", "id": "probe-id", "method": "ping"}))
                for _ in range(100):
                    if any(isinstance(m, dict) and m.get("id") == "probe-id" for m in received):
                        break
                    await asyncio.sleep(0.02)
                await asyncio.sleep(0.1)
                cons.cancel()
                try:
                    await cons
                except BaseException:
                    pass
            q.put_nowait(None)

    try:
        asyncio.run(main())
    except Exception as e:  # noqa
        out.fail("loopback:sse-client-raised", f"{type(e).__name__}: {e}")
        return out
    out.nontrivial = bool(cuts) or any(r["mode"] != "200-body" for r in reqs)
    out.classes = ("loopback", "chunked" if cuts else "unchunked") + tuple(sorted({"mode:" + r["mode"] for r in reqs}))
    msgs = received
    if not any(isinstance(m, dict) and m.get("id") == "probe-id" for m in msgs):
        out.fail("loopback:probe-not-answered", json.dumps(msgs)[:300])
    for rq in reqs:
        mine = [m for m in msgs if isinstance(m, dict) and "method" not in m and str(m.get("id")) == str(rq["id"])]
        if len(mine) != 1:
            out.fail(f"loopback:{'no' if not mine else 'duplicate'}-terminal-message:{rq['mode']}", f"request {rq['id']!r}: {json.dumps(mine)[:200]} all={json.dumps(msgs)[:300]}")
        elif not strict_eq(mine[0].get("id"), rq["id"]):
            out.fail("loopback:terminal-message-id-type-changed", f"{rq['id']!r} -> {mine[0].get('id')!r}")
        elif rq["mode"] != "status-500-text" and not strict_eq((mine[0].get("result") or {}).get("t"), "\u00e9\U0001F600\u2028"):
            out.fail("loopback:response-payload-altered", json.dumps(mine[0])[:200])
    want = [sm["wire"] for sm in srv]
    got = [m for m in msgs if isinstance(m, dict) and "method" in m]
    if len(got) != len(want) or not all(strict_eq(a, b) for a, b in zip(got, want)):
        out.fail("loopback:server-messages-lost-duplicated-or-altered", f"cuts={cuts} got {json.dumps(got)[:300]} want {json.dumps(want)[:300]}")
    return out


@st.composite
def loopback_cases(draw):
    n = draw(st.integers(1, 3))
    reqs = []
    for i in range(n):
        rid = draw(st.one_of(st.sampled_from([f"r{i}", f"{100 + i}"]), st.integers(1, 50).map(lambda v, i=i: v * 4 + i)))
        reqs.append({"id": rid, "mode": draw(st.sampled_from(["200-body", "202-then-event", "event-then-202", "status-500-text"])), "delta": draw(st.sampled_from([0.0, 0.01, 0.03]))})
    seen = set()
    for i, r in enumerate(reqs):
        if str(r["id"]) in seen:
            r["id"] = f"u{i}"
        seen.add(str(r["id"]))
    srv = [{"dt": 0.0, "wire": {"jsonrpc": "2.0", "method": "notifications/message", "params": {"level": "info", "data": f"n{j} \u00e9\U0001F600\u0085"}}} for j in range(draw(st.integers(0, 3)))]
    return {"loop": True, "requests": reqs, "server_msgs": srv, "cuts": draw(st.lists(st.integers(1, 200), max_size=6)), "crlf": draw(st.booleans())}


def job_loopback(col: Collector, seed: int, tier: str, shard: int, n: int) -> None:
    hyp_run(col, seed * 1000 + 800 + shard, loopback_cases(), check, n)


def job_atheris(col: Collector, seed: int, tier: str, seconds: int, corpus: str) -> None:
    from ..fuzz.job import run_fuzz_job

    run_fuzz_job(col, "sse_stream", seconds, seed, corpus)


def job_cuts(col: Collector, seed: int, tier: str, shard: int, nshards: int) -> None:
    """one session with non-ASCII text in the endpoint stream, a server notification and an answer on the event stream:
    every piece of the stream cut at EVERY offset (one cut; a one-byte piece), LF and CRLF"""
    for crlf in (False, True):
        for c in range(1, 260):
            if c % nshards != shard:
                continue
            for cuts in ([c], [c, c + 1]):
                case = {"est": {"kind": "endpoint-event"}, "timeout": 2.0, "requests": [{"id": "r-\u00e9", "mode": "202-then-event", "delta": 0.01}],
                        "server_msgs": [{"dt": 0.0, "wire": {"jsonrpc": "2.0", "method": "notifications/message", "params": {"level": "info", "data": "n \u00e9\U0001F600\u65e5\u2028"}}}],
                        "cuts": cuts, "exit": "normal", "crlf": crlf}
                col.record(case, check(case))
    if shard == 0:
        col.exhaustive_parts.append("event stream with non-ASCII payloads cut at every offset 1..259 (single cut, one-byte piece) x LF/CRLF")


def job_idspaces(col: Collector, seed: int, tier: str, shard: int, nshards: int) -> None:
    """client request ids and server request ids are independent spaces, and servers mix typed and untyped events: every
    answering mode x a server request bearing the client's id before / after the answer x every cycle of two event forms"""
    i = 0
    answering = ["200-body", "202-then-event", "event-then-202", "200-body-error", "202-then-error-event", "200-json-array", "status-400-json"]
    for mode in answering:
        for rid in ("r-1", 7, 0):
            for when in (0.0, 0.15, 0.4):
                for f1 in _FORMS:
                    for f2 in _FORMS:
                        i += 1
                        if i % nshards != shard:
                            continue
                        srv = [{"dt": when, "wire": {"jsonrpc": "2.0", "id": rid, "method": "ping"}},
                               {"dt": 0.05, "wire": {"jsonrpc": "2.0", "method": "notifications/message", "params": {"level": "info", "data": "after"}}},
                               {"dt": 0.3, "wire": {"jsonrpc": "2.0", "id": rid, "method": "roots/list"}}]
                        case = {"est": {"kind": ["endpoint-event", "bare-messages", "endpoint-crlf"][i % 3]}, "timeout": 2.0,
                                "requests": [{"id": rid, "mode": mode, "delta": 0.1}, {"id": "second", "mode": ["202-then-event", "200-body"][i % 2], "delta": 0.01}],
                                "server_msgs": srv, "cuts": [], "exit": "normal", "crlf": bool(i % 2), "forms": [f1, f2]}
                        col.record(case, check(case))
    if shard == 0:
        col.exhaustive_parts.append("7 answering modes x 3 ids x server request with the client's id at 3 instants x 25 two-form cycles of event spelling")


JOBS = {"idspaces": job_idspaces, "atheris": job_atheris, "hyp": job_hyp, "matrix": job_matrix, "loopback": job_loopback, "cuts": job_cuts}


def jobs(tier: str):
    if tier == "quick":
        return [("matrix", {"shard": s, "nshards": 8}) for s in range(8)] + [("hyp", {"shard": s, "n": 120}) for s in range(8)] + [("cuts", {"shard": s, "nshards": 4}) for s in range(4)] + [("idspaces", {"shard": s, "nshards": 4}) for s in range(4)]
    return (
        [("matrix", {"shard": s, "nshards": 6}) for s in range(6)] + [("hyp", {"shard": s, "n": 3000}) for s in range(6)] + [("loopback", {"shard": s, "n": 40}) for s in range(4)] + [("cuts", {"shard": s, "nshards": 4}) for s in range(4)] + [("idspaces", {"shard": s, "nshards": 4}) for s in range(4)]
        + [("atheris", {"seconds": 150, "corpus": "seeded"}), ("atheris", {"seconds": 150, "corpus": "empty"})]
    )


def shrink(signature: str, seed: int):
    return hyp_shrink(seed * 1000, cases(), check, signature, 600)
