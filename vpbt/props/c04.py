"""C04 - a library server never acknowledges a protocol version it does not support."""
from __future__ import annotations

import asyncio
import itertools
import json
from typing import Any, Dict, List, Optional

from hypothesis import strategies as st

from ..drive import drive
from ..jsonrpc_ref import classify, strict_eq
from ..runner import Collector, Outcome, hyp_run, hyp_shrink
from ..vclock import run_virtual
from .c03 import PREFERRED, UNIVERSE, all_lists

ID = "C04"
LEVEL = "exploration"
RULE = (
    "server side: requested protocolVersion drawn from {each supported version, every well-formed calendar date string with year 1990..2189 "
    "(74,400, enumerated exhaustively), malformed near-misses, non-strings, absent} x {with, without clientInfo} dispatched through ProtocolHandler; "
    "histories of 2..6 handshakes on one handler (all of length 2 and 3 over 5 versions x every session-reuse pattern, longer ones drawn; sequential or all in flight concurrently) with every answer re-read after the history; "
    "end-to-end: send_initialize with every supported-list (258) x preferred (8) of the C03 universe wired to ProtocolHandler.handle_message through an "
    "in-memory pump that serialises both directions as a transport would; oracle: answered version in the server's supported set, equals the request's when supported, "
    "one new session carrying the answered version; end-to-end outcome is agreement on a version both sides support or VersionMismatchError; "
    "non-trivial = requested version unsupported/malformed, or client list not a subset of the server set; distinct = distinct case"
    "; round 8: earlier connections of the same server (handshakes at other versions, some sessions dropped since): their records must be untouched by this handshake"
)
ASSUMPTIONS = [
    "the server's supported set is its configuration SUPPORTED_VERSIONS, read from the tree",
    "a calendar date string is dddd-dd-dd with month 01..12 and day 01..31",
]
EXHAUSTIVE = {"quick": True, "thorough": True}
META = {
    "text": "Exhaustive over the 200-year date window and the full end-to-end client-list product; Hypothesis for malformed and non-string versions. Decides what the handler answers and records for every enumerated request, no claim beyond them.",
    "technique": "bounded-exhaustive enumeration + Hypothesis; end-to-end differential client<->server pump on a virtual clock",
}


def _handler():
    from chuk_mcp.protocol.types.capabilities import ServerCapabilities
    from chuk_mcp.protocol.types.info import ServerInfo
    from chuk_mcp.server.protocol_handler import ProtocolHandler

    return ProtocolHandler(ServerInfo(name="srv", version="1.0"), ServerCapabilities())


_PINNED: Optional[List[str]] = None


def _supported() -> List[str]:
    """the server's supported set as configured when the process started (a copy: whatever happens to the live
    list at run time must not move the reference)"""
    global _PINNED
    from chuk_mcp.protocol.types.versioning import SUPPORTED_VERSIONS

    if _PINNED is None:
        _PINNED = list(SUPPORTED_VERSIONS)
    return list(_PINNED)


ABSENT = "$absent"


def check_seq(case: Dict[str, Any]) -> Outcome:
    """a history of handshakes on ONE handler (several clients of one server, or re-initialisation): every answer is
    looked at twice - when it is returned and again after the whole history (an outgoing queue serialises later) - and
    every session must end up carrying the version that its own handshake was answered with."""
    from chuk_mcp.protocol.messages.json_rpc_message import parse_message

    out = Outcome()
    sup = _supported()
    h = _handler()
    steps: List[Dict[str, Any]] = case["seq"]
    kept: List[Dict[str, Any]] = []
    sids: List[Optional[str]] = []

    async def one(k: int, st_: Dict[str, Any], sid_in: Optional[str]):
        # the same client program connecting again identifies itself the same way every time
        params: Dict[str, Any] = {"capabilities": {}, "clientInfo": {"name": "c" if case.get("same_client") else f"c{k}", "version": "1"}}
        if st_["version"] != ABSENT:
            params["protocolVersion"] = st_["version"]
        msg = parse_message({"jsonrpc": "2.0", "id": k, "method": "initialize", "params": params})
        resp, sid = await h.handle_message(msg, sid_in)
        return {"resp": resp, "now": json.loads(resp.model_dump_json(exclude_none=True)) if resp is not None else None, "sid": sid, "sid_in": sid_in}

    async def go():
        if case.get("concurrent"):
            # several clients of one server: their initialize requests are in flight at the same time
            rs = await asyncio.gather(*[one(k, st_, None) for k, st_ in enumerate(steps)])
            for r_ in rs:
                sids.append(r_["sid"])
                kept.append(r_)
            return
        for k, st_ in enumerate(steps):
            reuse = st_.get("reuse")
            sid_in = sids[reuse] if reuse is not None and reuse < len(sids) else None
            r_ = await one(k, st_, sid_in)
            sids.append(r_["sid"] or sid_in)
            kept.append(r_)

    try:
        run_virtual(go)
    except Exception as e:  # noqa
        out.fail("initialize-dispatch-raised", f"history {steps!r}: {type(e).__name__}: {e}")
        return out
    versions = [st_["version"] for st_ in steps]
    out.nontrivial = len({json.dumps(v) for v in versions}) > 1
    out.classes = (("same-client-identity",) if case.get("same_client") else ()) + ("history", f"len:{len(steps)}", "mixed-versions" if out.nontrivial else "one-version", "with-reuse" if any(st_.get("reuse") is not None for st_ in steps) else "no-reuse") + (("concurrent",) if case.get("concurrent") else ())
    sessions = h.session_manager.list_sessions()
    last_for_sid: Dict[str, Any] = {}
    for k, (st_, kp) in enumerate(zip(steps, kept)):
        if kp["resp"] is None:
            out.fail("initialize-request-not-answered", f"step {k} version={st_['version']!r}")
            return out
        later = json.loads(kp["resp"].model_dump_json(exclude_none=True))
        if not strict_eq(later, kp["now"]):
            out.fail("earlier-answer-changed-by-a-later-handshake", f"step {k} (requested {st_['version']!r}) answered {kp['now'].get('result', {}).get('protocolVersion')!r} when returned, "
                     f"reads {later.get('result', {}).get('protocolVersion')!r} after the history {versions!r}")
            return out
        kind, _why = classify(later)
        if kind != "result":
            continue
        answered = (later.get("result") or {}).get("protocolVersion")
        if not (isinstance(answered, str) and answered in sup):
            out.fail("unsupported-version-acknowledged", f"step {k}: requested {st_['version']!r} -> answered {answered!r}")
            return out
        if isinstance(st_["version"], str) and st_["version"] in sup and answered != st_["version"]:
            out.fail("supported-version-not-echoed", f"step {k}: requested {st_['version']!r} answered {answered!r}")
            return out
        sid = kp["sid"] or kp["sid_in"]
        if sid is not None:
            last_for_sid[sid] = answered
    for sid, answered in last_for_sid.items():
        s_ = sessions.get(sid)
        if s_ is None:
            out.fail("session-missing-after-handshake", f"sid {sid!r}")
        elif not strict_eq(s_.protocol_version, answered):
            out.fail("session-version-differs-from-answered", f"history {versions!r}: session answered {answered!r} carries {s_.protocol_version!r}")
    for s_ in sessions.values():
        if s_.protocol_version not in sup:
            out.fail("session-records-unsupported-version", f"{s_.protocol_version!r} after history {versions!r}")
    return out


def check(case: Dict[str, Any]) -> Outcome:
    if case.get("e2e"):
        return check_e2e(case)
    if "seq" in case:
        return check_seq(case)
    from chuk_mcp.protocol.messages.json_rpc_message import JSONRPCRequest, parse_message

    out = Outcome()
    v = case["version"]
    client_info = case.get("clientInfo", ABSENT)
    how = case.get("how", "parse")
    sup = _supported()
    params: Dict[str, Any] = {"capabilities": {}}
    if v != ABSENT:
        params["protocolVersion"] = v
    if client_info != ABSENT:
        params["clientInfo"] = client_info
    wire = {"jsonrpc": "2.0", "id": case.get("id", 1), "method": "initialize", "params": params}
    msg = parse_message(wire) if how == "parse" else JSONRPCRequest(**wire)

    h = _handler()
    prior_sid: Optional[str] = None
    if case.get("prior"):
        # a handshake already happened on this connection; the host passes its session id along
        first = parse_message({"jsonrpc": "2.0", "id": "first", "method": "initialize",
                               "params": {"protocolVersion": case["prior"], "capabilities": {}, "clientInfo": {"name": "c0", "version": "0"}}})

        async def go0():
            return await h.handle_message(first)

        _r0, prior_sid = run_virtual(go0)
    # earlier connections of the same server: handshakes at various versions, some of those sessions since dropped
    earlier: Dict[str, Any] = {}
    for op in case.get("history", []):
        if op[0] == "init":
            m0 = parse_message({"jsonrpc": "2.0", "id": "h", "method": "initialize", "params": {"protocolVersion": op[1], "capabilities": {}, "clientInfo": {"name": "earlier", "version": "0"}}})

            async def goh(m0=m0):
                return await h.handle_message(m0)

            r0, s0_ = run_virtual(goh)
            w0 = json.loads(r0.model_dump_json(exclude_none=True)) if r0 is not None else {}
            if s0_ is not None and isinstance(w0.get("result"), dict):
                earlier[s0_] = w0["result"].get("protocolVersion")
        elif op[0] == "drop" and earlier:
            gone = list(earlier)[op[1] % len(earlier)]
            h.session_manager.delete_session(gone)
            earlier.pop(gone)
    before = set(h.session_manager.list_sessions().keys())

    async def go():
        return await h.handle_message(msg, prior_sid)

    try:
        resp, sid = run_virtual(go)
    except Exception as e:  # noqa
        out.fail("initialize-dispatch-raised", f"version={v!r}: {type(e).__name__}: {e}")
        return out

    is_str = isinstance(v, str)
    supported_req = is_str and v in sup
    out.nontrivial = not supported_req
    out.classes = (("re-initialize",) if case.get("prior") else ()) + (("earlier-connections",) if case.get("history") else ()) + (
        "req:" + ("absent" if v == ABSENT else ("supported" if supported_req else ("date" if is_str and len(v) == 10 else ("string" if is_str else "nonstring")))),
        "clientInfo" if client_info != ABSENT else "no-clientInfo",
    )
    if resp is None:
        out.fail("initialize-request-not-answered", f"version={v!r}")
        return out
    w = json.loads(resp.model_dump_json(exclude_none=True))
    kind, why = classify(w)
    if kind == "error":
        # refusing an unsupported version with an error does not acknowledge it
        after = set(h.session_manager.list_sessions().keys())
        if supported_req:
            out.fail("supported-version-refused", repr(w))
        if after != before:
            out.fail("session-created-for-refused-initialize", repr(w))
        return out
    if kind != "result":
        out.fail("initialize-answer-invalid", f"{why}: {w!r}")
        return out
    if not strict_eq(w.get("id"), wire["id"]):
        out.fail("initialize-answer-id-differs", repr(w))
    answered = (w.get("result") or {}).get("protocolVersion")
    if not (isinstance(answered, str) and answered in sup):
        sig = "unsupported-version-acknowledged" if v != ABSENT else "default-version-unsupported"
        out.fail(sig, f"requested {v!r} -> answered {answered!r}; server supports {sup}")
    elif supported_req and answered != v:
        out.fail("supported-version-not-echoed", f"requested {v!r} answered {answered!r}")
    after = h.session_manager.list_sessions()
    for k_, s_ in after.items():
        if s_.protocol_version not in sup:
            out.fail("session-records-unsupported-version", f"session {'(prior)' if k_ == prior_sid else '(new)'} carries {s_.protocol_version!r} after initialize({v!r})")
            return out
    for k_, v_ in earlier.items():
        # what this handshake did must not touch what was agreed with the other connections
        if k_ not in after:
            out.fail("earlier-session-vanished-at-a-later-handshake", f"session answered {v_!r} is gone after initialize({v!r})")
            return out
        if not strict_eq(after[k_].protocol_version, v_):
            out.fail("earlier-session-version-changed-by-a-later-handshake", f"a connection answered {v_!r} now records {after[k_].protocol_version!r} after initialize({v!r}) on another connection")
            return out
    new = [s for k, s in after.items() if k not in before]
    if prior_sid is not None and len(new) == 0:
        # re-initialize may refresh the existing session instead of creating one
        s0 = after.get(prior_sid)
        if s0 is None or not strict_eq(s0.protocol_version, answered):
            out.fail("session-version-differs-from-answered", f"re-initialize answered {answered!r}, session carries {getattr(s0, 'protocol_version', None)!r}")
    elif len(new) != 1:
        out.fail("initialize-did-not-create-exactly-one-session", f"{len(new)} new sessions")
    else:
        s = new[0]
        if sid != s.session_id:
            out.fail("returned-session-id-differs", f"{sid!r} vs {s.session_id!r}")
        if not strict_eq(s.protocol_version, answered):
            out.fail("session-version-differs-from-answered", f"answered {answered!r} recorded {s.protocol_version!r}")
        want_ci = {} if client_info == ABSENT else client_info
        if not strict_eq(s.client_info, want_ci):
            out.fail("session-client-info-differs", f"{s.client_info!r} vs {want_ci!r}")
    return out


def check_e2e(case: Dict[str, Any]) -> Outcome:
    from chuk_mcp.protocol.messages.initialize.send_messages import send_initialize
    from chuk_mcp.protocol.messages.json_rpc_message import parse_message
    from chuk_mcp.protocol.types.errors import VersionMismatchError

    out = Outcome()
    L = list(case["supported"])
    preferred = case.get("preferred")
    sup = _supported()
    h = _handler()
    holder: Dict[str, Any] = {"sid": None, "errors": []}

    async def side(res, rec):
        async def pump(item):
            try:
                line = item.model_dump_json(exclude_none=True)
                msg = parse_message(json.loads(line))
                resp, sid = await h.handle_message(msg, holder["sid"])
                if sid:
                    holder["sid"] = sid
                if resp is not None:
                    back = parse_message(json.loads(resp.model_dump_json(exclude_none=True)))
                    res.inject(back)
            except Exception as e:  # noqa
                holder["errors"].append(f"{type(e).__name__}: {e}")

        rec.on_send = lambda item: asyncio.ensure_future(pump(item))
        await asyncio.sleep(3600)

    async def call(r, w):
        return await send_initialize(r, w, timeout=1.0, supported_versions=list(L), preferred_version=preferred)

    res = drive(call, [], side=side, max_vtime=20)
    common = [v for v in L if v in sup]
    out.nontrivial = not all(v in sup for v in L)
    out.classes = ("e2e", "common:" + ("some" if common else "none"), "preferred:" + ("none" if not preferred else ("in" if preferred in L else "out")))
    sessions = list(h.session_manager.list_sessions().values())
    if res.outcome == "return":
        v = getattr(res.value, "protocolVersion", None)
        if not (v in L and v in sup):
            out.fail("handshake-agreed-on-version-not-supported-by-both", f"client {L} server {sup} agreed {v!r}")
        if len(sessions) != 1 or sessions[0].protocol_version != v:
            out.fail("session-version-differs-from-agreed", f"agreed {v!r} sessions {[s.protocol_version for s in sessions]}")
    elif res.outcome == "raise" and isinstance(res.exc, VersionMismatchError):
        pass
    else:
        # a pump error caused by the server raising on the initialized notification is C08's subject, not C04's
        out.fail("handshake-ended-neither-agreed-nor-mismatch", f"client {L} pref {preferred!r}: {res.outcome} {res.exc!r} pump_errors={holder['errors'][:2]}")
    return out


def date_strings():
    for y in range(1990, 2190):
        for m in range(1, 13):
            for d in range(1, 32):
                yield f"{y:04d}-{m:02d}-{d:02d}"


def job_dates(col: Collector, seed: int, tier: str, shard: int, nshards: int) -> None:
    for i, v in enumerate(date_strings()):
        if i % nshards != shard:
            continue
        case = {"version": v, "clientInfo": {"name": "c", "version": "1"} if i % 2 else ABSENT, "how": "parse" if i % 3 else "direct", "id": i}
        if i % 5 == 0:
            case["prior"] = ["2025-06-18", "2025-03-26", "2024-11-05"][i % 3]
        if i % 7 == 0:
            vs_ = ["2025-06-18", "2025-03-26", "2024-11-05"]
            case["history"] = [["init", vs_[i % 3]], ["init", vs_[(i + 1) % 3]], ["init", vs_[(i + 2) % 3]], ["drop", i % 3], ["init", vs_[(i // 7) % 3]], ["drop", (i // 3) % 3]][: 3 + (i // 7) % 4]
        col.record(case, check(case))
    if shard == 0:
        col.exhaustive_parts.append("all 74,400 calendar date strings 1990-01-01..2189-12-31 as requested protocolVersion")


def job_e2e(col: Collector, seed: int, tier: str, shard: int, nshards: int) -> None:
    i = 0
    for L in all_lists():
        for p in PREFERRED:
            i += 1
            if i % nshards != shard:
                continue
            case = {"e2e": True, "supported": L, "preferred": p}
            col.record(case, check(case))
    if shard == 0:
        col.exhaustive_parts.append("end-to-end: 258 client lists x 8 preferred values against ProtocolHandler")


_versions = st.one_of(
    st.sampled_from(["2025-06-18", "2025-03-26", "2024-11-05", "2025-6-18", "2025-06-18\n", " 2025-06-18", "2025-06-18 ", "2025-06-18T00:00", "２０２５-０６-１８",
                     "2025-06-18\x00", "draft", "", "latest", "2025/06/18", "20250618", "2025-06-180", "1999-01-01", "9999-99-99", ABSENT]),
    st.integers(-5, 20250618), st.floats(allow_nan=False, allow_infinity=False), st.booleans(), st.none(),
    st.lists(st.sampled_from(["2025-06-18", 1]), max_size=2), st.dictionaries(st.sampled_from(["v", "2025-06-18"]), st.integers(), max_size=1),
    st.text(max_size=12),
    st.from_regex(r"[0-9]{4}-[0-9]{2}-[0-9]{2}", fullmatch=True),
)


@st.composite
def cases(draw):
    v = draw(_versions)
    ci = draw(st.one_of(st.just(ABSENT), st.just({"name": "c", "version": "1"}), st.dictionaries(st.text(max_size=4), st.one_of(st.text(max_size=4), st.integers()), max_size=3)))
    case = {"version": v, "clientInfo": ci, "how": draw(st.sampled_from(["parse", "direct"])), "id": draw(st.one_of(st.integers(0, 5), st.sampled_from(["a", "0"])))}
    if draw(st.integers(0, 2)) == 0:
        case["prior"] = draw(st.sampled_from(["2025-06-18", "2025-03-26", "2024-11-05"]))
    if draw(st.integers(0, 2)) == 0:
        hop = st.one_of(st.tuples(st.just("init"), st.sampled_from(["2025-06-18", "2025-03-26", "2024-11-05", "1999-01-01"])).map(list), st.tuples(st.just("drop"), st.integers(0, 5)).map(list))
        case["history"] = draw(st.lists(hop, min_size=1, max_size=7))
    return case


def job_hyp(col: Collector, seed: int, tier: str, shard: int, n: int) -> None:
    hyp_run(col, seed * 1000 + shard, cases(), check, n)


SEQ_VERSIONS = ["2025-06-18", "2025-03-26", "2024-11-05", "1999-01-01", ABSENT]


def job_seq(col: Collector, seed: int, tier: str) -> None:
    """all histories of 2 and 3 handshakes over 5 requested versions x every session-reuse pattern (none / an earlier step's session)."""
    for L in (2, 3):
        for vs in itertools.product(SEQ_VERSIONS, repeat=L):
            for reuse in itertools.product(*[[None] + list(range(k)) for k in range(L)]):
                case = {"seq": [{"version": v, "reuse": r} for v, r in zip(vs, reuse)]}
                col.record(case, check(case))
            case = {"seq": [{"version": v, "reuse": None} for v in vs], "same_client": True}
            col.record(case, check(case))
    # the same requests in flight at the same time (no session reuse)
    for L in (2, 3):
        for vs in itertools.product(SEQ_VERSIONS + ["latest"], repeat=L):
            case = {"seq": [{"version": v, "reuse": None} for v in vs], "concurrent": True}
            col.record(case, check(case))
    col.exhaustive_parts.append("handshake histories on one handler: length 2 and 3 over {3 supported versions, an unsupported date, absent} x every session-reuse pattern; and all 2- and 3-tuples over 6 versions dispatched concurrently")


@st.composite
def seq_cases(draw):
    n = draw(st.integers(2, 6))
    seq = []
    for k in range(n):
        seq.append({"version": draw(st.one_of(st.sampled_from(SEQ_VERSIONS), _versions)), "reuse": draw(st.one_of(st.none(), st.integers(0, k - 1))) if k else None})
    case = {"seq": seq}
    if draw(st.integers(0, 2)) == 0:
        case["same_client"] = True
    if draw(st.integers(0, 2)) == 0:
        case = {"seq": [dict(x, reuse=None) for x in seq], "concurrent": True}
    return case


def job_seq_hyp(col: Collector, seed: int, tier: str, shard: int, n: int) -> None:
    hyp_run(col, seed * 1000 + 300 + shard, seq_cases(), check, n)


JOBS = {"dates": job_dates, "e2e": job_e2e, "hyp": job_hyp, "seq": job_seq, "seq_hyp": job_seq_hyp}


def jobs(tier: str):
    if tier == "quick":
        return [("dates", {"shard": s, "nshards": 11}) for s in range(11)] + [("e2e", {"shard": s, "nshards": 3}) for s in range(3)] + [("hyp", {"shard": s, "n": 600}) for s in range(2)] + [("seq", {}), ("seq_hyp", {"shard": 0, "n": 300})]
    return [("dates", {"shard": s, "nshards": 10}) for s in range(10)] + [("e2e", {"shard": s, "nshards": 3}) for s in range(3)] + [("hyp", {"shard": s, "n": 20000}) for s in range(3)] + [("seq", {}), ("seq_hyp", {"shard": 0, "n": 10000})]


def shrink(signature: str, seed: int):
    return hyp_shrink(seed * 1000, cases(), check, signature, 2000)
