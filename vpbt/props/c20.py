"""C20 - every host entry point launches exactly the server the configuration names."""
from __future__ import annotations

import asyncio
import glob
import json
import os
import shutil
import subprocess
import sys
import tempfile
from typing import Any, Dict, List, Optional, Tuple

from hypothesis import strategies as st

from ..jsonrpc_ref import strict_eq
from ..runner import Collector, Outcome, hyp_run, hyp_shrink

ID = "C20"
LEVEL = "exploration"
RULE = (
    "case = generated configuration file with 1..4 servers: command = a per-case copy of a witness MCP server script (absolute path, possibly in a directory whose name has a space / non-ASCII; or a bare name found on the configured PATH while a same-named decoy sits on the host's PATH), "
    "args with spaces, quotes, backslashes, Unicode, empty strings, URL-/comment-like text (//, /* */, #); env absent / {} / values with spaces, '=', Unicode; the host's own HOME/TERM/USER/LOGNAME/SHELL set, unset or function-like differently before each entry point; the file rewritten (in place or deleted and recreated) between entry points; timeout absent / int / float / numeric string; extra keys at every level; "
    "run through three entry points (round 8: the connectivity test also with --verbose): load_config -> stdio_client -> send_initialize; __main__.test_server; run_command with a recording command; plus malformed classes (missing file, invalid JSON: "
    "truncated / trailing comma / empty, unknown server name); oracle: the witness child records argv, environ and every received line: argv == configured args, environment == what a control launch "
    "with the configured environment, or with the documented default computed independently of the library from the host's variables at that moment, shows, it saw initialize then notifications/initialized, timeout is float or None, test_server is True, run_command hands the command one "
    "stream pair per configured server; malformed -> FileNotFoundError / JSONDecodeError / ValueError, test_server False, run_command launches nothing and does not raise; "
    "non-trivial = args with whitespace/quotes/non-ASCII/empty strings, or env present, or >1 server; distinct = distinct configuration"
    "; added in rounds 6-7 of the seeded changes: slow-starting servers inside their own timeouts; one command line under several names (env differs); first spawn attempt refused by the OS"
)
ASSUMPTIONS = [
    "real child processes; scratch directories are created per case and removed",
    "environment variable names are VP_[A-Z0-9_]* or a few realistic ones (tokens, keys, passwords, LANG, TZ); values contain no NUL (the OS forbids it)",
    "run_command clears the screen through os.system; the worker's stdout is redirected to /dev/null while it runs",
]
EXHAUSTIVE = {"quick": False, "thorough": False}
META = {
    "text": "Generated configuration files exercised through all three host entry points against a witness child that records what it was launched with; a control launch provides the expected environment.",
    "technique": "Hypothesis configurations with a real witness child process; oracle = recorded argv/environ/handshake vs configuration and a control launch",
}

WITNESS = r'''#!/venv/bin/python
import sys, os, json, time
rec = {"argv": sys.argv[1:], "environ": dict(os.environ), "lines": [], "pid": os.getpid()}
delay = 0.0
for a_ in sys.argv[1:]:
    if a_.startswith("--vp-init-delay="):
        delay = float(a_.split("=", 1)[1])  # a server that takes a while to come up
path = os.path.abspath(__file__) + ".out.%d.json" % os.getpid()
def save():
    with open(path + ".tmp", "w") as fh:
        json.dump(rec, fh)
    os.replace(path + ".tmp", path)
save()
for line in sys.stdin:
    line = line.strip()
    if not line:
        continue
    try:
        msg = json.loads(line)
    except Exception:
        rec["lines"].append("<junk>"); save(); continue
    rec["lines"].append(msg.get("method") if isinstance(msg, dict) else "<nonobj>")
    save()
    if isinstance(msg, dict) and "id" in msg and "method" in msg:
        m = msg["method"]
        if m == "initialize":
            time.sleep(delay)
            res = {"protocolVersion": msg.get("params", {}).get("protocolVersion", "2025-06-18"), "capabilities": {}, "serverInfo": {"name": "witness", "version": "1"}}
        else:
            res = {}
        sys.stdout.write(json.dumps({"jsonrpc": "2.0", "id": msg["id"], "result": res}) + "\n"); sys.stdout.flush()
'''


class Silence:
    """redirect fd 1 and 2 to /dev/null (run_command prints and clears the screen)."""

    def __enter__(self):
        sys.stdout.flush()
        sys.stderr.flush()
        self.saved = (os.dup(1), os.dup(2))
        dn = os.open(os.devnull, os.O_WRONLY)
        os.dup2(dn, 1)
        os.dup2(dn, 2)
        os.close(dn)
        return self

    def __exit__(self, *a):
        sys.stdout.flush()
        sys.stderr.flush()
        os.dup2(self.saved[0], 1)
        os.dup2(self.saved[1], 2)
        os.close(self.saved[0])
        os.close(self.saved[1])
        return False


INHERITED = ["HOME", "LOGNAME", "PATH", "SHELL", "TERM", "USER"]


def ref_default_environment() -> Dict[str, str]:
    """the documented default for a server without its own env, stated independently of the library: the six
    inherited variables with the host's current non-empty values, exported shell functions left out"""
    return {k: os.environ[k] for k in INHERITED if os.environ.get(k) and not os.environ[k].startswith("()")}


class HostEnv:
    """set / unset host variables for the duration of one entry point (idempotent exit)"""

    def __init__(self, changes: Dict[str, Any]) -> None:
        self.changes = changes
        self.saved: Optional[Dict[str, Optional[str]]] = None

    def __enter__(self) -> "HostEnv":
        self.saved = {k: os.environ.get(k) for k in self.changes}
        for k, v in self.changes.items():
            if v is None:
                os.environ.pop(k, None)
            else:
                os.environ[k] = v
        return self

    def __exit__(self, *a: Any) -> None:
        if self.saved is None:
            return
        for k, v in self.saved.items():
            if v is None:
                os.environ.pop(k, None)
            else:
                os.environ[k] = v
        self.saved = None


def _collect(script: str) -> List[Dict[str, Any]]:
    outs = []
    for f in sorted(glob.glob(glob.escape(script) + ".out.*.json")):
        try:
            outs.append(json.load(open(f)))
        except Exception:
            pass
        os.remove(f)
    return outs


def check(case: Dict[str, Any]) -> Outcome:
    from chuk_mcp.config import load_config
    from chuk_mcp.mcp_client.host.environment import get_default_environment
    from chuk_mcp.protocol.messages.initialize.send_messages import send_initialize
    from chuk_mcp.transports.stdio.stdio_client import stdio_client

    out = Outcome()
    servers: List[Dict[str, Any]] = case.get("servers", [])
    malformed = case.get("malformed")
    root = tempfile.mkdtemp(prefix="vpbt_c20_")
    restore: Optional[HostEnv] = None
    try:
        sub = os.path.join(root, case.get("dirname", "d"))
        os.makedirs(sub, exist_ok=True)
        cfg: Dict[str, Any] = {"mcpServers": {}}
        scripts: Dict[str, str] = {}
        decoys: Dict[str, str] = {}
        decoy_dir = os.path.join(root, "host-path")
        servers = list(servers)
        for i, s in enumerate(servers):
            script = os.path.join(sub, f"witness_{i}.py")
            with open(script, "w") as fh:
                fh.write(WITNESS)
            os.chmod(script, 0o755)
            scripts[s["name"]] = script
            sc: Dict[str, Any] = {"command": script}
            if s.get("same_as") is not None and 0 <= s["same_as"] < i and not servers[s["same_as"]].get("bare") and not s.get("bare"):
                # the same program with the same arguments configured twice under two names, told apart by its environment
                # only (two accounts, two regions ...): two servers, two launches
                j_ = s["same_as"]
                script = scripts[servers[j_]["name"]]
                scripts[s["name"]] = script
                sc["command"] = script
                s = dict(s)
                if "args" in servers[j_]:
                    s["args"] = list(servers[j_]["args"])
                else:
                    s.pop("args", None)
                servers[i] = s
            if s.get("bare"):
                # a bare command name: it is looked up on the PATH of the *configured* environment; a program of the
                # same name that sits on the host's own PATH must never be the one that runs
                bindir = os.path.join(sub, f"bin_{i}")
                os.makedirs(bindir, exist_ok=True)
                script = os.path.join(bindir, f"vp-witness-{i}")
                shutil.copy(scripts[s["name"]], script)
                os.chmod(script, 0o755)
                scripts[s["name"]] = script
                os.makedirs(decoy_dir, exist_ok=True)
                decoy = os.path.join(decoy_dir, f"vp-witness-{i}")
                shutil.copy(script, decoy)
                os.chmod(decoy, 0o755)
                decoys[s["name"]] = decoy
                sc["command"] = f"vp-witness-{i}"
                s = dict(s, env=dict(s.get("env") or {}, PATH=bindir + os.pathsep + "/usr/bin:/bin"))
                servers[i] = s
            if "args" in s:
                sc["args"] = s["args"]
            if "env" in s:
                sc["env"] = s["env"]
            if "timeout" in s:
                sc["timeout"] = s["timeout"]
            for k, v in s.get("extra", {}).items():
                sc[k] = v
            cfg["mcpServers"][s["name"]] = sc
        for k, v in case.get("top_extra", {}).items():
            cfg[k] = v
        path = os.path.join(root, "config.json")
        text = json.dumps(cfg, ensure_ascii=case.get("ensure_ascii", True))
        if malformed == "truncated":
            text = text[: max(1, len(text) // 2)]
        elif malformed == "trailing_comma":
            text = text[:-1] + ",}"
        elif malformed == "empty":
            text = ""
        if malformed != "missing_file":
            with open(path, "w", encoding="utf-8") as fh:
                fh.write(text)
        names = [s["name"] for s in servers]
        if malformed == "unknown_server":
            names = ["no-such-server"]
        if malformed in ("missing_file", "truncated", "trailing_comma", "empty") and not names:
            names = ["a"]

        def has_odd(a: str) -> bool:
            return a == "" or any(c in a for c in " \t'\"\\") or any(ord(c) > 0x7E for c in a)

        out.nontrivial = any(any(has_odd(a) for a in s.get("args", [])) or bool(s.get("env")) for s in servers) or len(servers) > 1 or bool(malformed)
        out.classes = (f"servers:{len(servers)}", f"malformed:{malformed or 'no'}") + (("env",) if any(s.get("env") for s in servers) else ()) + (("odd-args",) if any(any(has_odd(a) for a in s.get("args", [])) for s in servers) else ()) + (("connectivity-test-verbose",) if case.get("verbose") else ())

        # ------------------------------------------------------------ malformed classes
        if malformed:
            want = {"missing_file": FileNotFoundError, "truncated": json.JSONDecodeError, "trailing_comma": json.JSONDecodeError, "empty": json.JSONDecodeError, "unknown_server": ValueError}[malformed]

            async def lc():
                return await load_config(path, names[0])

            try:
                asyncio.run(lc())
                out.fail(f"malformed-config-accepted:{malformed}", "load_config returned")
            except Exception as e:  # noqa
                if type(e) is not want:
                    out.fail(f"malformed-config-wrong-exception:{malformed}", f"{type(e).__name__}: {e}")
            import chuk_mcp.__main__ as M

            with Silence():
                try:
                    r = asyncio.run(M.test_server(path, names[0]))
                except BaseException as e:  # noqa
                    r = e
            if r is not False:
                out.fail(f"test_server-not-false-on-malformed:{malformed}", repr(r))
            from chuk_mcp.mcp_client.host.server_manager import run_command

            called: List[Any] = []

            async def cmd(streams):
                called.append(len(streams))

            with Silence():
                try:
                    run_command(cmd, path, names)
                    raised = None
                except BaseException as e:  # noqa
                    raised = e
            if raised is not None:
                out.fail(f"run_command-raised-on-malformed:{malformed}", repr(raised))
            if called:
                out.fail(f"run_command-ran-command-on-malformed:{malformed}", repr(called))
            launched = sum(len(_collect(sp)) for sp in scripts.values())
            if launched:
                out.fail(f"server-launched-despite-malformed-config:{malformed}", f"{launched} launches")
            return out

        # ------------------------------------------------------------ expected env via control launch
        def expected_env(s: Dict[str, Any]) -> Dict[str, str]:
            # documented default: the six inherited variables as the host has them *now* (function exports skipped)
            return dict(s["env"]) if s.get("env") else ref_default_environment()

        control_cache: Dict[str, Dict[str, Any]] = {}

        def control(s: Dict[str, Any]) -> Optional[Dict[str, Any]]:
            env = expected_env(s)
            key = json.dumps([s["name"], env], sort_keys=True)
            if key not in control_cache:
                sp = scripts[s["name"]]
                subprocess.run([sp] + list(s.get("args", [])), env=env, input=b"", stdout=subprocess.DEVNULL, stderr=subprocess.DEVNULL, timeout=20)
                got = _collect(sp)
                if len(got) != 1:
                    return None
                control_cache[key] = got[0]
            return control_cache[key]

        host_env: List[Dict[str, Any]] = [dict(h) for h in case.get("host_env", [{}, {}, {}])]
        if decoys:
            for h in host_env:
                h["PATH"] = decoy_dir + os.pathsep + os.environ.get("PATH", "")
            out.classes = out.classes + ("bare-command-with-same-named-program-on-host-PATH",)
            out.nontrivial = True
        for s in servers:
            if control(s) is None:
                out.classes = out.classes + ("control-launch-failed",)
                out.nontrivial = False
                return out
        if any(host_env) and any(not s.get("env") for s in servers):
            out.classes = out.classes + ("host-environment-changes-between-launches",)
            out.nontrivial = True

        def verify(entry: str, s: Dict[str, Any], recs: List[Dict[str, Any]]) -> bool:
            if s["name"] in decoys:
                wrong = _collect(decoys[s["name"]])
                if wrong:
                    out.fail(f"other-program-of-the-same-name-launched:{entry}", f"{s['name']}: the configured PATH resolves the command to {scripts[s['name']]}, but the one on the host's PATH ran ({len(wrong)} launch(es))")
                    return False
            if len(recs) != 1:
                sig = f"server-not-launched:{entry}" if not recs else f"server-launched-more-than-once:{entry}"
                out.fail(sig, f"{s['name']}: {len(recs)} launches")
                return False
            rec = recs[0]
            if not strict_eq(rec["argv"], list(s.get("args", []))):
                out.fail(f"child-argv-differs-from-configured-args:{entry}", f"configured {s.get('args', [])!r} child saw {rec['argv']!r}")
                return False
            ctl_rec = control(s)
            if ctl_rec is None:
                return True
            ctl = ctl_rec["environ"]
            if rec["environ"] != ctl:
                extra = {k: v for k, v in rec["environ"].items() if k not in ctl}
                missing = {k: v for k, v in ctl.items() if k not in rec["environ"]}
                changed = {k: (ctl[k], v) for k, v in rec["environ"].items() if k in ctl and ctl[k] != v}
                what = "extra-variables" if extra else ("missing-variables" if missing else "changed-values")
                out.fail(f"child-environment-differs:{what}:{entry}", f"extra={list(extra)[:5]} missing={list(missing)[:5]} changed={list(changed)[:3]}")
                return False
            lines = rec["lines"]
            if lines[:2] != ["initialize", "notifications/initialized"]:
                out.fail(f"handshake-not-reached:{entry}", f"{s['name']}: child received {lines[:4]!r}")
                return False
            return True

        # ------------------------------------------------------------ entry point 1
        async def ep1(s: Dict[str, Any]):
            params, timeout = await load_config(path, s["name"])
            async with stdio_client(params) as (r, w):
                res = await send_initialize(r, w, timeout=10)
                # a round trip, so that the queued initialized notification has been written
                # before the context is left (messages are written in order)
                from chuk_mcp.protocol.messages.ping.send_messages import send_ping

                await send_ping(r, w, timeout=10)
            return timeout, res

        import contextlib
        import errno as _errno

        import anyio as _anyio

        @contextlib.contextmanager
        def transient_spawn_fault(name: Optional[str]):
            """the operating system refuses the first attempt to start a process (EAGAIN, ENOMEM ...) and would accept a
            second one: whether the library gives up or tries again is its business - IF a server is started, it is the
            configured one with the configured environment"""
            if not name:
                yield
                return
            real_open = _anyio.open_process
            left = {"n": 1}

            async def flaky(command, **kw):
                if left["n"] > 0:
                    left["n"] -= 1
                    no = getattr(_errno, name)
                    raise OSError(no, os.strerror(no))
                return await real_open(command, **kw)

            _anyio.open_process = flaky  # type: ignore
            try:
                yield
            finally:
                _anyio.open_process = real_open  # type: ignore

        fault = case.get("spawn_fault")
        if fault:
            out.classes = out.classes + (f"first-spawn-attempt-fails:{fault}",)
            out.nontrivial = True
        restore = HostEnv(host_env[0])
        restore.__enter__()
        for s in servers:
            try:
                with transient_spawn_fault(fault):
                    timeout, res = asyncio.run(ep1(s))
            except Exception as e:  # noqa
                if fault and isinstance(e, OSError):
                    # the error surfaced to the application, which tries again
                    _collect(scripts[s["name"]])
                    try:
                        timeout, res = asyncio.run(ep1(s))
                    except Exception as e2:  # noqa
                        out.fail("entry-point-failed:load_config+stdio_client", f"{s['name']} (second attempt after a transient {fault}): {type(e2).__name__}: {e2}")
                        _collect(scripts[s["name"]])
                        continue
                else:
                    out.fail("entry-point-failed:load_config+stdio_client", f"{s['name']}: {type(e).__name__}: {e}")
                    _collect(scripts[s["name"]])
                    continue
            if "timeout" in s and s["timeout"] is not None:
                if not (isinstance(timeout, float) and timeout == float(s["timeout"])):
                    out.fail("configured-timeout-not-returned-as-float", f"{s['timeout']!r} -> {timeout!r}")
            elif timeout is not None:
                out.fail("absent-timeout-not-none", repr(timeout))
            if not verify("load_config+stdio_client", s, _collect(scripts[s["name"]])):
                break

        restore.__exit__(None, None, None)
        if case.get("rewrite"):
            # the user edits the configuration while the host keeps running: same file, new content
            for s in servers:
                s_new = dict(s, args=list(s.get("args", [])) + [f"--edited-{case['rewrite']}"])
                servers[servers.index(s)] = s_new
                cfg["mcpServers"][s["name"]]["args"] = s_new["args"]
            new_text = json.dumps(cfg, ensure_ascii=case.get("ensure_ascii", True))
            if case["rewrite"] == "in-place":
                with open(path, "r+", encoding="utf-8") as fh:
                    fh.seek(0)
                    fh.write(new_text)
                    fh.truncate()
            else:  # delete + create (the new file may get the old inode number)
                os.remove(path)
                with open(path, "w", encoding="utf-8") as fh:
                    fh.write(new_text)
            control_cache.clear()
            out.classes = out.classes + ("config-rewritten-between-entry-points",)
        # ------------------------------------------------------------ entry point 2
        import chuk_mcp.__main__ as M

        restore = HostEnv(host_env[1])
        restore.__enter__()
        for s in servers:
            with Silence():
                try:
                    with transient_spawn_fault(fault):
                        ok = asyncio.run(M.test_server(path, s["name"], *([True] if case.get("verbose") else [])))  # (--verbose on the command line)
                except BaseException as e:  # noqa
                    ok = e
                if fault and ok is not True:
                    # the connectivity test reported the transient failure; the user runs it again
                    _collect(scripts[s["name"]])
                    try:
                        ok = asyncio.run(M.test_server(path, s["name"], *([True] if case.get("verbose") else [])))  # (--verbose on the command line)
                    except BaseException as e:  # noqa
                        ok = e
            recs = _collect(scripts[s["name"]])
            if ok is not True:
                out.fail("test_server-not-true-for-valid-config", f"{s['name']}: {ok!r}")
                continue
            if not verify("test_server", s, recs):
                break

        restore.__exit__(None, None, None)
        # ------------------------------------------------------------ entry point 3
        from chuk_mcp.mcp_client.host.server_manager import run_command

        restore = HostEnv(host_env[2])
        restore.__enter__()
        called: List[Any] = []

        async def cmd(streams):
            from chuk_mcp.protocol.messages.ping.send_messages import send_ping

            called.append(len(streams))
            for r_, w_ in streams:
                await send_ping(r_, w_, timeout=10)  # a real command talks to its servers

        run_names = [s["name"] for s in servers]
        if case.get("ghost_at") is not None:
            # a name that is not configured, somewhere in the list: it must simply be skipped
            run_names.insert(case["ghost_at"] % (len(run_names) + 1), "no-such-server")
        with Silence():
            try:
                run_command(cmd, path, run_names)
                raised = None
            except BaseException as e:  # noqa
                raised = e
        if raised is not None:
            out.fail("run_command-raised", repr(raised))
        if called != [len(servers)]:
            out.fail("run_command-did-not-connect-every-configured-server", f"command called with {called!r} stream pairs for {len(servers)} configured servers")
            for s in servers:
                _collect(scripts[s["name"]])
        else:
            by_script: Dict[str, List[Dict[str, Any]]] = {}
            for s in servers:
                by_script.setdefault(scripts[s["name"]], []).append(s)
            for sp_, group in by_script.items():
                recs_ = _collect(sp_)
                if len(group) == 1:
                    if not verify("run_command", group[0], recs_):
                        break
                    continue
                out.classes = out.classes + ("same-command-line-configured-under-two-names",)
                out.nontrivial = True
                if len(recs_) != len(group):
                    out.fail("server-not-launched:run_command" if len(recs_) < len(group) else "server-launched-more-than-once:run_command",
                             f"{[g['name'] for g in group]} share one command line and differ in their environment: {len(recs_)} launch(es) for {len(group)} configured servers")
                    break
                ok_ = True
                for g in group:
                    ctl_ = control(g)
                    mine_ = [r_ for r_ in recs_ if ctl_ is not None and r_["environ"] == ctl_["environ"]]
                    if ctl_ is not None and not verify("run_command", g, mine_):
                        ok_ = False
                        break
                if not ok_:
                    break
        return out
    finally:
        if restore is not None:
            restore.__exit__(None, None, None)
        shutil.rmtree(root, ignore_errors=True)


# --------------------------------------------------------------------------------------- generators

_arg = st.one_of(
    st.sampled_from(["", "a b", "--flag", "it's", 'say "hi"', "back\\slash", "é", "日本語", "\U0001F600", "a\tb", "-", "--x=y z", "$HOME", "*", "a\nb",
                     "sqlite:///data/app.db", "//host/share", "/srv//data", "a // b", "http://x/y", "/* c */", "# hash", "a,}", "{\"k\": 1}"]),
    st.text(alphabet=st.characters(blacklist_characters="\x00", blacklist_categories=("Cs",)), max_size=8),
)
_envname = st.one_of(st.from_regex(r"VP_[A-Z0-9_]{0,6}", fullmatch=True),
                     st.sampled_from(["VP_API_KEY", "VP_TOKEN", "GITHUB_TOKEN", "VP_SECRET", "DB_PASSWORD", "AWS_SECRET_ACCESS_KEY", "VP_CREDENTIALS", "VP_PASSWD", "OPENAI_API_KEY", "VP_DEBUG", "LANG", "TZ"]))
_envval = st.one_of(st.sampled_from(["", "a b", "k=v", "é=ü", "x\ty", "\U0001F600", "1", "file:///tmp/x", "//share", "a//b", "/* x */"]), st.text(alphabet=st.characters(blacklist_characters="\x00", blacklist_categories=("Cs",)), max_size=8))
_extra = st.dictionaries(st.sampled_from(["description", "disabled", "cwd_hint", "x-é"]), st.one_of(st.booleans(), st.text(max_size=5), st.none(), st.just({"k": [1]})), max_size=2)


@st.composite
def server(draw, i: int) -> Dict[str, Any]:
    s: Dict[str, Any] = {"name": draw(st.sampled_from([f"srv{i}", f"sérver {i}", f"s-{i}.x"]))}
    if draw(st.integers(0, 4)) > 0:
        s["args"] = draw(st.lists(_arg, max_size=4))
    ek = draw(st.sampled_from(["absent", "empty", "values", "values"]))
    if ek == "empty":
        s["env"] = {}
    elif ek == "values":
        s["env"] = draw(st.dictionaries(_envname, _envval, min_size=1, max_size=3))
    tk = draw(st.sampled_from(["absent", "int", "float", "str"]))
    if tk == "int":
        s["timeout"] = draw(st.integers(1, 600))
    elif tk == "float":
        s["timeout"] = draw(st.sampled_from([0.5, 2.25, 30.0]))
    elif tk == "str":
        s["timeout"] = draw(st.sampled_from(["5", "2.5", "1e1"]))
    s["extra"] = draw(_extra)
    if draw(st.integers(0, 3)) == 0:
        s["bare"] = True
    elif i > 0 and draw(st.integers(0, 3)) == 0:
        s["same_as"] = draw(st.integers(0, i - 1))
        s["env"] = dict(s.get("env") or {}, VP_WHO=f"server-{i}")
    return s


@st.composite
def cases(draw):
    n = draw(st.sampled_from([1, 1, 2, 3, 4]))
    servers = []
    names = set()
    for i in range(n):
        s = draw(server(i))
        if s["name"] in names:
            s["name"] = f"dup{i}"
        names.add(s["name"])
        servers.append(s)
    case = {"servers": servers, "dirname": draw(st.sampled_from(["d", "dir with space", "dïr"])), "top_extra": draw(_extra), "ensure_ascii": draw(st.booleans())}
    if draw(st.booleans()):
        # the host's own environment differs from launch to launch (a long-running host process)
        hv = st.dictionaries(st.sampled_from(["HOME", "TERM", "USER", "LOGNAME", "SHELL"]),
                             st.sampled_from(["/tmp/vp home \u00e9", "/nonexistent", "dumb", "vt100", "vp-user", "\u00fc", "/bin/sh", None, "() { :; }; echo x"]), max_size=3)
        case["host_env"] = [draw(hv), draw(hv), draw(hv)]
    if draw(st.integers(0, 2)) == 0:
        case["verbose"] = True  # the connectivity test run with --verbose
    if draw(st.integers(0, 3)) == 0:
        case["rewrite"] = draw(st.sampled_from(["in-place", "recreate"]))
    if draw(st.integers(0, 5)) == 0:
        case["spawn_fault"] = draw(st.sampled_from(["EAGAIN", "ENOMEM", "ETXTBSY", "EMFILE", "EINTR"]))
    m = draw(st.sampled_from([None] * 8 + ["missing_file", "truncated", "trailing_comma", "empty", "unknown_server"]))
    if m:
        case["malformed"] = m
    elif draw(st.integers(0, 2)) == 0:
        case["ghost_at"] = draw(st.integers(0, 4))
    return case


def job_hyp(col: Collector, seed: int, tier: str, shard: int, n: int) -> None:
    hyp_run(col, seed * 1000 + shard, cases(), check, n)


def job_slow(col: Collector, seed: int, tier: str, shard: int) -> None:
    """servers that take a while to come up - each well inside its own configured timeout, together longer than it:
    every entry point still reaches the handshake with every one of them"""
    sets = [
        [("a", 1, 0.45), ("b", 1.0, 0.45), ("c", "1", 0.45)],
        [("a", 2, 0.7), ("b", None, 0.1), ("c", 1.5, 0.7), ("d", 1, 0.3)],
        [("only", 0.5, 0.3)],
        [("a", "1.5", 0.6), ("b", 0.5, 0.0), ("c", 1.5, 0.6)],
    ]
    servers = []
    for name, t, d in sets[shard % len(sets)]:
        sv: Dict[str, Any] = {"name": name, "args": ["--stdio", f"--vp-init-delay={d}"], "extra": {}}
        if t is not None:
            sv["timeout"] = t
        servers.append(sv)
    case = {"servers": servers, "dirname": "d", "top_extra": {}, "ensure_ascii": True}
    o = check(case)
    o.nontrivial = True
    o.classes = tuple(o.classes) + ("slow-servers-inside-their-own-timeouts",)
    col.record(case, o)
    if shard == 0:
        col.exhaustive_parts.append("4 fixed sets of 1..4 slow-starting servers, each inside its own configured timeout, cumulatively beyond it")


def job_shared_cmd(col: Collector, seed: int, tier: str, shard: int) -> None:
    sets = [
        [{"name": "alpha", "args": ["--stdio"], "env": {"VP_WHO": "alpha"}}, {"name": "beta", "same_as": 0, "env": {"VP_WHO": "beta", "VP_REGION": "eu"}}, {"name": "gamma", "args": ["--other"]}],
        [{"name": "default-env"}, {"name": "own-env", "same_as": 0, "env": {"VP_WHO": "own"}}],
        [{"name": "a", "args": ["x y"], "env": {"VP_WHO": "a"}}, {"name": "b", "args": ["z"]}, {"name": "c", "same_as": 0, "env": {"VP_WHO": "c"}}, {"name": "d", "same_as": 0, "env": {"VP_WHO": "d"}, "timeout": 5}],
    ]
    servers = [dict(sv, extra={}) for sv in sets[shard % len(sets)]]
    case = {"servers": servers, "dirname": "d", "top_extra": {}, "ensure_ascii": True}
    o = check(case)
    col.record(case, o)
    if shard == 0:
        col.exhaustive_parts.append("3 fixed configurations in which one command line is configured under two or three names that differ in their environment only")


def job_spawn_fault(col: Collector, seed: int, tier: str, shard: int) -> None:
    names = ["EAGAIN", "ENOMEM", "ETXTBSY", "EMFILE"]
    servers = [{"name": "no-env", "args": ["--stdio"], "extra": {}}, {"name": "empty-env", "env": {}, "extra": {}}, {"name": "own-env", "env": {"VP_TOKEN": "s3cret", "PATH": "/usr/bin:/bin"}, "extra": {}}]
    case = {"servers": servers, "dirname": "d", "top_extra": {}, "ensure_ascii": True, "spawn_fault": names[shard % len(names)],
            "host_env": [{"HOME": "/tmp/vp home"}, {}, {}]}
    col.record(case, check(case))
    # the same three kinds of server through the connectivity test run with --verbose (no fault)
    case = {"servers": servers, "dirname": "d", "top_extra": {}, "ensure_ascii": True, "verbose": True, "host_env": [{}, {"HOME": "/tmp/vp home", "TERM": "dumb"}, {}]}
    col.record(case, check(case))
    if shard == 0:
        col.exhaustive_parts.append("first spawn attempt refused with EAGAIN / ENOMEM / ETXTBSY / EMFILE x servers with env absent / empty / set, through the loader and the connectivity test")


def job_malformed(col: Collector, seed: int, tier: str, shard: int) -> None:
    """every malformed-configuration class x a file that defines one, two or no servers, through all three entry points"""
    k = 0
    for m_ in ("missing_file", "truncated", "trailing_comma", "empty", "unknown_server"):
        for n_ in (1, 2, 0):
            k += 1
            if k % 4 != shard:
                continue
            servers = [{"name": f"srv{i}", "args": ["--stdio"], "extra": {}} for i in range(n_)]
            case = {"servers": servers, "dirname": "d", "top_extra": {}, "ensure_ascii": True, "malformed": m_}
            col.record(case, check(case))
    if shard == 0:
        col.exhaustive_parts.append("5 malformed-configuration classes x files defining 1 / 2 / 0 servers x the three entry points")


JOBS = {"malformed": job_malformed, "hyp": job_hyp, "slow": job_slow, "shared_cmd": job_shared_cmd, "spawn_fault": job_spawn_fault}


def jobs(tier: str):
    if tier == "quick":
        return [("hyp", {"shard": s, "n": 8}) for s in range(16)] + [("slow", {"shard": s}) for s in range(4)] + [("shared_cmd", {"shard": s}) for s in range(3)] + [("spawn_fault", {"shard": s}) for s in range(4)] + [("malformed", {"shard": s}) for s in range(4)]
    return [("hyp", {"shard": s, "n": 150}) for s in range(16)] + [("slow", {"shard": s}) for s in range(4)] + [("shared_cmd", {"shard": s}) for s in range(3)] + [("spawn_fault", {"shard": s}) for s in range(4)] + [("malformed", {"shard": s}) for s in range(4)]


def shrink(signature: str, seed: int):
    return hyp_shrink(seed * 1000, cases(), check, signature, 60, budget_s=120)
