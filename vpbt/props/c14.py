"""C14 - deadlines, cancellation and progress behave the same under any traffic."""
from __future__ import annotations

import asyncio
import itertools
from typing import Any, Dict, List, Optional, Tuple

from hypothesis import strategies as st

from ..drive import drive
from ..jsonrpc_ref import strict_eq
from ..runner import Collector, Outcome, hyp_run, hyp_shrink

ID = "C14"
LEVEL = "exploration"
RULE = (
    "case = (timeout T, cancel instant tc in {never, before the call, grid}, matching-response instant tr in {never, grid}, background traffic "
    "{none, bursts of notifications, flood every 10 ms, other-id responses}, progress stream [(t, token right/foreign/missing, fields)], "
    "callback raising at chosen positions, optionally a follow-up request pending on the same connection while late progress for the finished one arrives; callback given as async def / callable object / partial / plain function returning the coroutine; the token shared with a sibling request or reused by a retry; a peer that stops reading after the request, so that further writes block) on a 10 ms virtual-time grid biased to poll boundaries, the deadline and each other; "
    "oracle = reference timeline of allowed outcomes; non-trivial = two of {cancel, response, deadline} within 0.5 s of each other, "
    "or a flood, or >=2 progress notifications with a raising callback; distinct = distinct full case"
    "; added in rounds 6-7 of the seeded changes: params dicts that already carry _meta.progressToken"
)
ASSUMPTIONS = [
    "virtual clock: the library reads time only through the event loop",
    "events at exactly the same virtual instant may be observed in either order (ties allow both outcomes)",
    "progress notifications are generated for instants >= 10 ms (a server cannot know the token before the request is written)",
    "the progress callback itself takes no virtual time",
]
EXHAUSTIVE = {"quick": False, "thorough": False}
META = {
    "text": "Generated virtual-time schedules of cancel/response/deadline/progress under background traffic (floods included), checked against a reference timeline of allowed outcomes; exact instants on and around the 0.5 s poll boundaries; no claim for schedules not generated.",
    "technique": "Hypothesis schedules on a virtual clock + small exhaustive grid, oracle = reference timeline",
}

POLL = 0.5
EPS = 1e-6


def check(case: Dict[str, Any]) -> Outcome:
    from chuk_mcp.protocol.messages.send_message import CancellationToken, CancelledError, send_message

    out = Outcome()
    T = case["T"] / 100.0
    tc = None if case.get("tc") is None else case["tc"] / 100.0  # -0.01 == before the call
    tr = None if case.get("tr") is None else case["tr"] / 100.0
    bg = case.get("bg", {"kind": "none"})
    prog: List[List[Any]] = case.get("progress", [])
    raise_at = set(case.get("cb_raise", []))
    use_cb = case.get("use_cb", True)
    use_token = tc is not None or case.get("use_token", False)

    token = CancellationToken() if use_token else None
    calls: List[Tuple[float, Any, Any, Any]] = []

    async def _cb(progress, total, message):
        idx = len(calls)
        calls.append((asyncio.get_running_loop().time(), progress, total, message))
        if idx in raise_at:
            raise RuntimeError(f"callback failure {idx}")

    # the callback may be any callable that returns an awaitable, not only a plain `async def` function
    shape = case.get("cb_shape", "async_def")
    if shape == "callable_object":
        class _CB:
            async def __call__(self, progress, total, message):
                return await _cb(progress, total, message)

        cb: Any = _CB()
    elif shape == "partial":
        import functools

        async def _cb4(tag, progress, total, message):
            return await _cb(progress, total, message)

        cb = functools.partial(_cb4, "tag")
    elif shape == "sync_wrapper":
        def cb(progress, total, message):  # an ordinary function handing back the coroutine (a decorator that is not async-aware)
            return _cb(progress, total, message)
    else:
        cb = _cb

    payload = {"ok": True, "n": 1}
    schedule: List[Tuple[float, Any]] = []
    if tr is not None:
        schedule.append((tr, {"jsonrpc": "2.0", "id": "$ID", "result": payload}))
    # background
    nbg = 0
    if bg["kind"] == "burst":
        for (t, n) in bg["bursts"]:
            for i in range(n):
                schedule.append((t / 100.0, {"jsonrpc": "2.0", "method": "notifications/message", "params": {"level": "info", "data": i}}))
                nbg += 1
    elif bg["kind"] == "flood":
        t = 1
        while t <= case["T"] + 120:
            schedule.append((t / 100.0, {"jsonrpc": "2.0", "method": "notifications/message", "params": {"level": "info", "data": t}}))
            t += 1
            nbg += 1
    elif bg["kind"] == "other":
        for t in bg["times"]:
            schedule.append((t / 100.0, {"jsonrpc": "2.0", "id": "someone-else", "result": {"other": True}}))
            nbg += 1
    # progress
    prog_meta = []
    for (t, tok, fields, vals) in prog:
        params: Dict[str, Any] = {}
        if tok == "right":
            params["progressToken"] = "$TOKEN"
        elif tok == "foreign":
            params["progressToken"] = "foreign-token"
        for f, v in zip(("progress", "total", "message"), vals):
            if f in fields:
                params[f] = v
        schedule.append((t / 100.0, {"jsonrpc": "2.0", "method": "notifications/progress", "params": params}))
        prog_meta.append({"t": t / 100.0, "tok": tok, "params": params})

    cancelled_before = tc is not None and tc < 0
    if cancelled_before and token is not None:
        token.cancel()

    async def side(res, rec):
        if tc is not None and tc >= 0:
            await asyncio.sleep(tc)
            token.cancel()

    user_params: Optional[Dict[str, Any]] = case.get("params", {"q": 1})

    first_end: Dict[str, float] = {}
    calls2: List[Tuple[float, Any, Any, Any]] = []
    follow_up = bool(case.get("follow_up"))

    async def cb2(progress, total, message):
        calls2.append((asyncio.get_running_loop().time(), progress, total, message))

    shared: Dict[str, Any] = {}

    async def sibling(r, w):
        # a second request governed by the same cancellation token (a batch of calls cancelled together), on a
        # connection of its own so that the two do not compete for the same incoming messages
        import math

        import anyio

        loop = asyncio.get_running_loop()
        _in_send, r = anyio.create_memory_object_stream(math.inf)
        w, _out_recv = anyio.create_memory_object_stream(math.inf)
        shared["out_recv"] = _out_recv
        try:
            v = await send_message(r, w, "work/sibling", None, timeout=T, message_id="req-14c", cancellation_token=token)
            shared["outcome"] = ("return", v, loop.time())
        except BaseException as e:  # noqa
            shared["outcome"] = (type(e).__name__, e, loop.time())
            if isinstance(e, asyncio.CancelledError):
                raise

    async def call(r, w):
        sib = asyncio.ensure_future(sibling(r, w)) if (case.get("shared_token") and token is not None) else None
        try:
            return await send_message(
                r, w, "work/do", user_params, timeout=T, message_id="req-14",
                cancellation_token=token, progress_callback=cb if use_cb else None,
            )
        finally:
            first_end.setdefault("t", asyncio.get_running_loop().time())
            if sib is not None:
                try:
                    await asyncio.wait([sib], timeout=T + 1.0)
                finally:
                    sib.cancel()
            if case.get("retry_same_token") and token is not None:
                # a retry wrapper calls again with the very same token
                loop = asyncio.get_running_loop()
                try:
                    v = await send_message(r, w, "work/retry", None, timeout=0.6, message_id="req-14r", cancellation_token=token)
                    shared["retry"] = ("return", v, loop.time())
                except BaseException as e:  # noqa
                    shared["retry"] = (type(e).__name__, e, loop.time())
                    if isinstance(e, asyncio.CancelledError):
                        raise
            first_end.setdefault("t", asyncio.get_running_loop().time())
            if follow_up:
                # the application carries on: another request on the same connection is pending while
                # late traffic for the finished one keeps arriving
                try:
                    await send_message(r, w, "work/next", None, timeout=1.0, message_id="req-14b", progress_callback=cb2)
                except BaseException as e2:  # noqa
                    if isinstance(e2, asyncio.CancelledError):
                        raise

    slow_peer = case.get("slow_peer")
    if slow_peer:
        # the peer takes the request at once but then stops reading for `slow_peer` seconds: whatever the call writes
        # next (the cancelled notification) blocks in an unbuffered stream
        res = drive(call, schedule, side=side, wait_first_write=not cancelled_before, max_vtime=T + slow_peer / 100.0 + 32.0, write_capacity=0, drain_delays={1: slow_peer / 100.0})
    else:
        res = drive(call, schedule, side=side, wait_first_write=not cancelled_before, max_vtime=T + 32.0)
    t_end = first_end.get("t", res.t_end)

    # ---------------- classes / non-triviality
    pts = [p for p in (tc if (tc is not None and tc >= 0) else None, tr, T) if p is not None]
    close = any(abs(a - b) <= POLL + EPS for a, b in itertools.combinations(pts, 2))
    right_prog = [p for p in prog_meta if p["tok"] == "right"]
    out.nontrivial = close or bg["kind"] == "flood" or (len(right_prog) >= 2 and bool(raise_at))
    out.classes = (
        f"bg:{bg['kind']}",
        "cancel:" + ("none" if tc is None else ("before" if tc < 0 else "timed")),
        "resp:" + ("none" if tr is None else "timed"),
        f"progress:{min(len(prog), 3)}",
        "cb-raises" if raise_at else "cb-ok",
    ) + (("follow-up-request",) if follow_up else ()) + ((f"cb:{shape}",) if shape != "async_def" else ()) + (("shared-token",) if case.get("shared_token") or case.get("retry_same_token") else ())

    def obs() -> str:
        if res.outcome == "return":
            return "return"
        if res.outcome == "hang":
            return "hang"
        return type(res.exc).__name__

    o = obs()

    # ---------------- (1) ends no later than its timeout
    if res.outcome == "hang" or t_end > T + EPS:
        out.fail("pending-request-outlives-its-timeout", f"outcome={o} t_end={t_end} T={T} bg={bg['kind']}" + (f" (peer not reading for {slow_peer / 100.0}s)" if slow_peer else ""))
        return out
    if slow_peer:
        # with a peer that is not reading, which of {cancelled, timeout} ends the call depends on when the notification
        # gets through; the deadline is what this case is about
        out.classes = out.classes + ("peer-not-reading",)
        if o == "return" and tr is None:
            out.fail("returned-without-response", f"{res.value!r}")
        return out

    # ---------------- (2) allowed outcomes
    allowed: List[Tuple[str, float, float]] = []  # (outcome, earliest, latest)
    if cancelled_before:
        allowed.append(("CancelledError", 0.0, 0.0))
    else:
        resp_in_time = tr is not None and tr <= T
        if tc is None or tc > T:
            if resp_in_time:
                allowed.append(("return", tr, tr))
                if abs(tr - T) < EPS:
                    allowed.append(("TimeoutError", T, T))
            else:
                allowed.append(("TimeoutError", T, T))
            if tc is not None and abs(tc - T) < EPS:
                allowed.append(("CancelledError", T, T))
        else:
            # cancel at tc <= T
            W = tc + POLL
            if resp_in_time and tr < tc - EPS:
                allowed.append(("return", tr, tr))
            else:
                allowed.append(("CancelledError", tc, min(W, T)))
                if resp_in_time and tr <= W + EPS:
                    allowed.append(("return", tr, tr))  # response arrived before the cancellation was noticed
                if T <= W + EPS:
                    allowed.append(("TimeoutError", T, T))
    ok = any(o == a and lo - EPS <= t_end <= hi + EPS for a, lo, hi in allowed)
    if not ok:
        if o == "CancelledError" and any(a == "CancelledError" for a, _, _ in allowed):
            sig = "cancellation-later-than-one-poll-interval"
        elif o == "TimeoutError" and tc is not None and not cancelled_before and tc + POLL < T - EPS and (tr is None or tr > tc + POLL):
            sig = "cancellation-not-honoured-before-deadline"
        elif o == "return" and tr is None:
            sig = "returned-without-response"
        elif o == "CancelledError":
            sig = "cancelled-although-response-arrived-first" if (tr is not None and tc is not None and tr < tc) else "spurious-cancellation"
        elif o == "TimeoutError" and tr is not None and tr < T - EPS:
            sig = "response-in-time-but-timeout"
        else:
            sig = f"outcome-not-allowed:{o}"
        out.fail(sig, f"observed {o}@{t_end}; allowed={allowed}; T={T} tc={tc} tr={tr} bg={bg['kind']}")
    if o == "return" and not strict_eq(res.value, payload):
        out.fail("returned-wrong-payload", repr(res.value))

    # ---------------- (3) cancelled notification / request written
    writes = [w for _, w in res.written]
    reqs = [w for w in writes if isinstance(w, dict) and w.get("method") == "work/do"]
    canc = [w for w in writes if isinstance(w, dict) and w.get("method") == "notifications/cancelled"]
    nxt = [w for w in writes if isinstance(w, dict) and w.get("method") in ("work/next", "work/sibling", "work/retry")]
    canc_other = [w for w in canc if (w.get("params") or {}).get("requestId") in ("req-14c", "req-14r")]
    canc = [w for w in canc if w not in canc_other]
    rest = [w for w in writes if w not in reqs and w not in canc and w not in nxt and w not in canc_other]
    # ---- requests that share the token
    sib_o = shared.get("outcome")
    sib_writes: List[Any] = []
    if shared.get("out_recv") is not None:
        while True:
            try:
                m_ = shared["out_recv"].receive_nowait()
            except Exception:
                break
            sib_writes.append(m_.model_dump(exclude_none=True) if hasattr(m_, "model_dump") else m_)
        canc_other = canc_other + [w for w in sib_writes if isinstance(w, dict) and w.get("method") == "notifications/cancelled"]
    if sib_o is not None and tc is not None:
        sib_written = any(isinstance(w, dict) and w.get("method") == "work/sibling" for w in sib_writes)
        if cancelled_before:
            if sib_written or sib_o[0] != "CancelledError":
                out.fail("shared-token:second-request-not-cancelled-before-sending", f"token cancelled before the calls; sibling written={sib_written} outcome={sib_o[0]}")
        elif tc + POLL < T - EPS:
            if sib_o[0] != "CancelledError" or not (tc - EPS <= sib_o[2] <= tc + POLL + EPS):
                out.fail("shared-token:second-request-not-cancelled-within-a-poll-interval", f"cancel at {tc}: sibling ended {sib_o[0]}@{sib_o[2]}")
            elif len([w for w in canc_other if (w.get("params") or {}).get("requestId") == "req-14c"]) != 1:
                out.fail("shared-token:cancelled-notification-count", f"sibling cancelled but {len(canc_other)} notifications name it")
    ret_o = shared.get("retry")
    if ret_o is not None and token is not None and tc is not None and (cancelled_before or tc < t_end - EPS):
        # the token is already cancelled when the retry starts: it must not be sent
        if any(w.get("method") == "work/retry" for w in nxt) or ret_o[0] != "CancelledError":
            out.fail("shared-token:retry-with-cancelled-token-was-sent", f"retry outcome={ret_o[0]} written={any(w.get('method') == 'work/retry' for w in nxt)}")
    if follow_up and calls2:
        out.fail("progress-callback-of-another-request-invoked", f"the follow-up request's callback got {calls2[:2]!r} although no notification bears its token")
    if rest:
        out.fail("unexpected-message-written", repr(rest))
    if cancelled_before:
        if reqs:
            out.fail("request-cancelled-before-sending-was-sent", repr(reqs))
    elif len(reqs) != 1:
        out.fail("request-not-written-exactly-once", repr(writes))
    if o == "CancelledError":
        if len(canc) != 1:
            out.fail("cancelled-notification-count", f"{len(canc)} cancelled notifications for a cancelled request: {canc!r}")
        elif not strict_eq((canc[0].get("params") or {}).get("requestId"), "req-14"):
            out.fail("cancelled-notification-wrong-request-id", repr(canc[0]))
        elif "id" in canc[0]:
            out.fail("cancelled-notification-has-id", repr(canc[0]))
    elif canc:
        out.fail("cancelled-notification-without-cancellation", f"outcome={o}: {canc!r}")

    # ---------------- (4) progress callback
    if use_cb and not cancelled_before:
        must = [p for p in right_prog if p["t"] < t_end - EPS]
        may = [p for p in right_prog if abs(p["t"] - t_end) <= EPS]

        def vals(p):
            pr = p["params"]
            return (pr.get("progress", 0), pr.get("total"), pr.get("message"))

        got = [(c[1], c[2], c[3]) for c in calls]
        want_min = [vals(p) for p in must]
        want_max = [vals(p) for p in must + may]
        good = False
        for k in range(len(want_min), len(want_max) + 1):
            if len(got) == k and all(strict_eq(list(g), list(w)) for g, w in zip(got, want_max[:k])):
                good = True
        if not good:
            if len(got) > len(want_max) and any(c[0] > t_end + EPS for c in calls):
                sig = "progress-callback-invoked-after-the-request-ended"
            elif len(got) > len(want_max):
                foreign = [p for p in prog_meta if p["tok"] != "right"]
                sig = "progress-callback-invoked-for-foreign-or-missing-token" if foreign else "progress-callback-invoked-too-often"
            elif len(got) < len(want_min):
                sig = "progress-notification-not-delivered-to-callback"
            else:
                sig = "progress-callback-values-or-order-differ"
            out.fail(sig, f"got={got!r} want>={want_min!r} want<={want_max!r}")
        # times of invocation equal arrival instants
        for c, p in zip(calls, must + may):
            if abs(c[0] - p["t"]) > EPS:
                out.fail("progress-callback-late", f"invoked at {c[0]} for arrival {p['t']}")
                break
        if reqs:
            tok = ((reqs[0].get("params") or {}).get("_meta") or {}).get("progressToken")
            if not isinstance(tok, (str, int)) or isinstance(tok, bool):
                out.fail("request-lacks-progress-token", repr(reqs[0]))
    elif cancelled_before and calls:
        out.fail("progress-callback-invoked-for-unsent-request", repr(calls))
    return out


# ---------------------------------------------------------------------------------------

T_CHOICES = [30, 100, 120, 200, 200, 450, 700]  # long waits too: whatever the polling does after several idle intervals must still honour "within one interval"


def _grid(Tcs: int, anchors: List[int]):
    pts = set()
    for k in range(0, Tcs // 50 + 2):
        for d in (-2, -1, 0, 1, 2):
            pts.add(k * 50 + d)
    for a in anchors + [Tcs]:
        for d in (-51, -50, -49, -2, -1, 0, 1, 2, 49, 50, 51):
            pts.add(a + d)
    pts = sorted(p for p in pts if 1 <= p <= Tcs + 60)
    return st.one_of(st.sampled_from(pts), st.integers(min_value=1, max_value=Tcs + 60))


_vals = st.tuples(
    st.one_of(st.integers(0, 100), st.floats(0, 1, allow_nan=False), st.just(0)),
    st.one_of(st.none(), st.integers(1, 1000), st.floats(1, 100, allow_nan=False)),
    st.one_of(st.none(), st.text(max_size=6)),
).map(list)


@st.composite
def cases(draw):
    Tcs = draw(st.sampled_from(T_CHOICES))
    tr = draw(st.one_of(st.none(), _grid(Tcs, [])))
    tc_kind = draw(st.sampled_from(["none", "none", "before", "timed", "timed", "timed"]))
    tc: Optional[int]
    if tc_kind == "none":
        tc = None
    elif tc_kind == "before":
        tc = -1
    else:
        tc = draw(_grid(Tcs, [tr] if tr is not None else []))
    bgk = draw(st.sampled_from(["none", "burst", "flood", "other", "burst"]))
    bg: Dict[str, Any] = {"kind": bgk}
    anchors = [x for x in (tr, tc) if x is not None and x > 0]
    if bgk == "burst":
        bg["bursts"] = draw(st.lists(st.tuples(_grid(Tcs, anchors), st.integers(1, 50)).map(list), min_size=1, max_size=4))
    elif bgk == "other":
        bg["times"] = draw(st.lists(_grid(Tcs, anchors), min_size=1, max_size=6))
    nprog = draw(st.sampled_from([0, 0, 1, 2, 3, 5, 8]))
    prog = []
    for _ in range(nprog):
        t = draw(_grid(Tcs, anchors))
        tok = draw(st.sampled_from(["right", "right", "right", "foreign", "missing"]))
        fields = draw(st.sampled_from([["progress", "total", "message"], ["progress"], ["progress", "total"], [], ["total", "message"]]))
        prog.append([t, tok, fields, draw(_vals)])
    prog.sort(key=lambda p: p[0])
    cb_raise = draw(st.one_of(st.lists(st.integers(0, 4), max_size=3, unique=True), st.lists(st.integers(0, 7), max_size=8, unique=True))) if nprog else []
    case = {"T": Tcs, "tc": tc, "tr": tr, "bg": bg, "progress": prog, "cb_raise": sorted(cb_raise),
            "use_cb": draw(st.sampled_from([True, True, True, False])), "use_token": draw(st.booleans())}
    if tc is not None and tc > 0 and draw(st.integers(0, 4)) == 0 and not cancelled_case(case):
        case["slow_peer"] = draw(st.sampled_from([50, 300, 1000]))
    if draw(st.integers(0, 2)) == 0:
        case["cb_shape"] = draw(st.sampled_from(["callable_object", "partial", "sync_wrapper"]))
    if draw(st.integers(0, 4)) == 0:
        case["params"] = draw(st.sampled_from([{"q": 1, "_meta": {"progressToken": "token-of-an-earlier-call"}}, {"_meta": {"progressToken": 0}}, {"q": None, "_meta": {"x": 1}}, None, {}]))
    if case["use_token"] or tc is not None:
        r_ = draw(st.integers(0, 5))
        if r_ == 0:
            case["shared_token"] = True
        elif r_ == 1:
            case["retry_same_token"] = True
    if draw(st.integers(0, 3)) == 0 and not case.get("retry_same_token"):
        case["follow_up"] = True
        # traffic for the finished request while the next one is pending
        for off in draw(st.lists(st.sampled_from([1, 10, 30, 55, 90]), max_size=2, unique=True)):
            case["progress"].append([Tcs + off, "right", ["progress", "total"], [off, 100, None]])
        case["progress"].sort(key=lambda p: p[0])
    return case


def cancelled_case(case: Dict[str, Any]) -> bool:
    return case.get("tc") is not None and case["tc"] < 0


def job_hyp(col: Collector, seed: int, tier: str, shard: int, n: int) -> None:
    hyp_run(col, seed * 1000 + shard, cases(), check, n)


GRID = [1, 25, 49, 50, 51, 75, 99, 100, 101, 119, 120]


def job_grid(col: Collector, seed: int, tier: str, shard: int, nshards: int) -> None:
    """All placements of (cancel, response) on a coarse grid with T=1.2 s x background kinds."""
    i = 0
    for tc in [None, -1] + GRID:
        for tr in [None] + GRID:
            for bgk in ("none", "flood", "burst"):
                i += 1
                if i % nshards != shard:
                    continue
                bg: Dict[str, Any] = {"kind": bgk}
                if bgk == "burst":
                    bg["bursts"] = [[(tc if tc and tc > 0 else 10) + 1, 3]]
                case = {"T": 120, "tc": tc, "tr": tr, "bg": bg,
                        "progress": [[10, "right", ["progress", "total"], [1, 2, None]], [60, "foreign", ["progress"], [5, None, None]], [110, "right", ["progress"], [9, None, None]]],
                        "cb_raise": [0], "use_cb": True, "use_token": True}
                col.record(case, check(case))
                if bgk == "none" and tc is not None and tc > 0:
                    for sp in (50, 400):
                        c3 = dict(case, slow_peer=sp, progress=[], cb_raise=[])
                        col.record(c3, check(c3))
                if bgk == "none":
                    for extra in ({"cb_shape": "callable_object"}, {"cb_shape": "sync_wrapper"}, {"shared_token": True}, {"retry_same_token": True},
                                  # the params dict was used for an earlier call (send_message writes the token into it) or the caller put a token of its own there
                                  {"params": {"q": 1, "_meta": {"progressToken": "token-of-an-earlier-call"}}}, {"params": {"_meta": {"progressToken": 7, "vendor": {"k": None}}}}, {"params": {"q": 1, "_meta": {}}}):
                        c2 = dict(case, **extra)
                        col.record(c2, check(c2))
                    case = dict(case, follow_up=True, progress=case["progress"] + [[125, "right", ["progress"], [10, None, None]], [150, "right", ["progress", "total"], [11, 12, None]]])
                    col.record(case, check(case))
    # a long, quiet wait: cancel placed after k idle poll intervals, k = 0..11, at three offsets inside the interval
    for k in range(12):
        for off in (1, 20, 49):
            i += 1
            if i % nshards != shard:
                continue
            case = {"T": 700, "tc": k * 50 + off, "tr": None, "bg": {"kind": "none"}, "progress": [], "cb_raise": [], "use_cb": False, "use_token": True}
            col.record(case, check(case))
    if shard == 0:
        # a callback that keeps failing: 6 own-token notifications, every subset of them raising (each must still be delivered once)
        for mask in range(64):
            prog6 = [[10 + 15 * j, "right", ["progress", "total"], [j, 6, None]] for j in range(6)]
            case = {"T": 120, "tc": None, "tr": 110 if mask % 2 == 0 else None, "bg": {"kind": "none"}, "progress": prog6, "cb_raise": [j for j in range(6) if mask >> j & 1], "use_cb": True, "use_token": False}
            col.record(case, check(case))
        col.exhaustive_parts.append("6 own-token progress notifications x all 64 subsets of positions at which the callback raises")
    if shard == 0:
        col.exhaustive_parts.append("all (cancel, response) placements over {never, before-call} U 11 grid instants with T=1.2 s x {no traffic, flood, burst right after the cancel}; quiet 7 s waits with the cancel after 0..11 idle poll intervals x 3 offsets")


JOBS = {"hyp": job_hyp, "grid": job_grid}


def jobs(tier: str):
    if tier == "quick":
        return [("hyp", {"shard": s, "n": 400}) for s in range(14)] + [("grid", {"shard": s, "nshards": 2}) for s in range(2)]
    return [("hyp", {"shard": s, "n": 15000}) for s in range(16)] + [("grid", {"shard": s, "nshards": 4}) for s in range(4)]


def shrink(signature: str, seed: int):
    return hyp_shrink(seed * 1000, cases(), check, signature, 3000)
