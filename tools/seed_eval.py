#!/usr/bin/env python3
"""Confirm and evaluate one seeded change produced by a sub-agent.

usage: tools/seed_eval.py Cxx A|B [--checks C01,C14] [--tier quick] [--no-suite]

Steps (all on a scratch copy of /repo under /tmp, removed afterwards; /repo is never touched):
 1. demo on the clean copy must exit 0;  2. patch must apply;  3. demo on the patched copy must exit != 0;
 4. the repository's own suite must still pass on the patched copy;  5. run the named checks (default: the
 property's own) against the patched copy and report whether they raise a VIOLATION.
On success the change is stored as /verif/seeded/<Cxx>_<variant>/ (patch.diff, demo.py, notes.md, meta.json).
"""
import argparse
import json
import os
import shutil
import subprocess
import sys
import tempfile
import time

VERIF = os.path.dirname(os.path.dirname(os.path.abspath(__file__)))
PY = "/venv/bin/python"


def run(cmd, env=None, cwd=None, timeout=3600):
    p = subprocess.run(cmd, env=env, cwd=cwd, stdout=subprocess.PIPE, stderr=subprocess.STDOUT, timeout=timeout)
    return p.returncode, p.stdout.decode("utf-8", "replace")


def main() -> int:
    ap = argparse.ArgumentParser()
    ap.add_argument("prop")
    ap.add_argument("variant")
    ap.add_argument("--checks", default=None)
    ap.add_argument("--tier", default="quick")
    ap.add_argument("--no-suite", action="store_true")
    ap.add_argument("--src", default=None, help="directory holding patch.diff/demo.py/notes.md (default /tmp/seedout_<prop>/<variant>)")
    a = ap.parse_args()
    src = a.src or f"/tmp/seedout_{a.prop}/{a.variant}"
    patch, demo = os.path.join(src, "patch.diff"), os.path.join(src, "demo.py")
    if not (os.path.exists(patch) and os.path.exists(demo)):
        print("missing deliverables in", src)
        return 2
    checks = (a.checks or a.prop).split(",")
    work = tempfile.mkdtemp(prefix="vseed.")
    meta = {"property": a.prop, "variant": a.variant, "evaluated_at": time.strftime("%Y-%m-%d %H:%M:%S")}
    try:
        copy = os.path.join(work, "repo")
        run(["rsync", "-a", "--exclude", ".git", "--exclude", "__pycache__", "/repo/", copy + "/"])
        env = dict(os.environ, PYTHONPATH=os.path.join(copy, "src"), PYTHONHASHSEED="0")
        env.pop("MCP_FORCE_FALLBACK", None)
        rc0, out0 = run([PY, demo], env=env, cwd=work, timeout=600)
        meta["demo_clean_rc"] = rc0
        rcp, outp = run(["patch", "-p1", "-s", "-i", patch], cwd=copy)
        meta["patch_applies"] = rcp == 0
        if rcp != 0:
            print("PATCH DOES NOT APPLY:", outp[-500:])
            meta["verdict"] = "rejected: patch does not apply to the current tree"
            print(json.dumps(meta, indent=1))
            return 1
        rc1, out1 = run([PY, demo], env=env, cwd=work, timeout=600)
        meta["demo_patched_rc"] = rc1
        meta["demo_patched_tail"] = out1[-400:]
        if not a.no_suite:
            rcs, outs = run([PY, "-m", "pytest", "-q", "-p", "no:cacheprovider", "-x", "tests"], env=env, cwd=copy, timeout=1800)
            tail = [l for l in outs.splitlines() if "passed" in l or "failed" in l or "error" in l.lower()][-1:] or [outs[-200:]]
            meta["suite_rc"] = rcs
            meta["suite_tail"] = tail[0]
        results = {}
        for c in checks:
            envc = dict(os.environ, VERIF_REPO=copy, VERIF_OUT=os.path.join(work, "out"))
            rc, out = run([PY, "-m", "vpbt", c, "--tier", a.tier], env=envc, cwd=VERIF, timeout=7200)
            sigs = sorted({l.split("signature=")[1].split()[0] for l in out.splitlines() if "signature=" in l})
            results[c] = {"rc": rc, "signatures": sigs}
        meta["checks"] = results
        meta["tier"] = a.tier
        confirmed = rc0 == 0 and rc1 != 0 and (a.no_suite or meta.get("suite_rc") == 0)
        caught = [c for c, r in results.items() if r["rc"] == 1]
        meta["confirmed"] = confirmed
        meta["caught_by"] = caught
        meta["verdict"] = ("kept" if confirmed else "rejected: demonstration or suite condition not met")
        print(json.dumps(meta, indent=1))
        if confirmed:
            dst = os.path.join(VERIF, "seeded", f"{a.prop}_{a.variant}")
            os.makedirs(dst, exist_ok=True)
            if os.path.realpath(src) != os.path.realpath(dst):
                shutil.copy(patch, os.path.join(dst, "patch.diff"))
                shutil.copy(demo, os.path.join(dst, "demo.py"))
                # notes and whatever helper files the demonstration needs next to it
                for fn in os.listdir(src):
                    fp = os.path.join(src, fn)
                    if fn not in ("patch.diff", "demo.py") and os.path.isfile(fp) and os.path.getsize(fp) < 200000 and not fn.endswith((".pyc", ".log")):
                        shutil.copy(fp, os.path.join(dst, fn))
            old = {}
            mp = os.path.join(dst, "meta.json")
            if os.path.exists(mp):
                old = json.load(open(mp))
            hist = old.get("history", [])
            hist.append({k: meta[k] for k in ("evaluated_at", "tier", "checks", "caught_by")})
            out_meta = dict(old)
            out_meta.update({
                "property": a.prop,
                "variant": a.variant,
                "breaks": a.prop,
                "needs_to_manifest": old.get("needs_to_manifest", "see notes.md"),
                "what_was_run": [
                    f"demo on clean copy -> rc {rc0}", f"demo on patched copy -> rc {rc1}",
                    (f"repository suite on patched copy -> {meta.get('suite_tail')}" if not a.no_suite else "suite: see history"),
                ] + [f"{PY} -m vpbt {c} --tier {a.tier} (VERIF_REPO=patched copy) -> rc {r['rc']} {r['signatures']}" for c, r in results.items()],
                "caught_by": caught,
                "history": hist,
            })
            if "caught_at_first_evaluation" not in out_meta:
                out_meta["caught_at_first_evaluation"] = bool(hist[0]["caught_by"])
            if a.no_suite and "what_was_run" in old:
                out_meta["what_was_run"] = old["what_was_run"][:3] + out_meta["what_was_run"][3:]
            json.dump(out_meta, open(mp, "w"), indent=1)
        return 0
    finally:
        shutil.rmtree(work, ignore_errors=True)


if __name__ == "__main__":
    sys.exit(main())
