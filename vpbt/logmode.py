"""Logging configuration as a case dimension: an application that calls ``logging.basicConfig(level=logging.DEBUG)``
must see the same protocol behaviour as one that leaves logging alone.  ``debug_logging(True)`` puts the root logger and
the package logger at DEBUG with an ordinary StreamHandler (records are formatted, the text is discarded) for the
duration of one case and restores the previous configuration afterwards."""
from __future__ import annotations

import contextlib
import logging
from typing import Iterator


class _Sink:
    def write(self, s: str) -> int:
        return len(s)

    def flush(self) -> None:
        pass


@contextlib.contextmanager
def debug_logging(on: bool = True) -> Iterator[None]:
    if not on:
        yield
        return
    root = logging.getLogger()
    pkg = logging.getLogger("chuk_mcp")
    old = (root.level, pkg.level, pkg.propagate, logging.raiseExceptions, root.manager.disable)
    logging.disable(logging.NOTSET)  # the harness normally runs with logging switched off altogether
    h = logging.StreamHandler(_Sink())
    h.setLevel(logging.DEBUG)
    h.setFormatter(logging.Formatter("%(asctime)s %(name)s %(levelname)s %(message)s"))
    others = list(root.handlers)  # (logging.debug() on an unconfigured root logger installs a stderr handler: keep it quiet)
    root.handlers[:] = [h]
    root.setLevel(logging.DEBUG)
    pkg.setLevel(logging.DEBUG)
    logging.raiseExceptions = False  # a record that cannot be formatted is the logging module's business, not the caller's
    try:
        yield
    finally:
        root.handlers[:] = others + [x for x in root.handlers if x is not h and x not in others]
        root.setLevel(old[0])
        pkg.setLevel(old[1])
        pkg.propagate = old[2]
        logging.raiseExceptions = old[3]
        logging.disable(old[4])
