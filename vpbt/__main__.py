"""python -m vpbt Cxx --tier quick|thorough [--replay FILE]"""
from __future__ import annotations

import argparse
import os
import sys
import traceback


def main() -> int:
    ap = argparse.ArgumentParser()
    ap.add_argument("property")
    ap.add_argument("--tier", default=os.environ.get("VERIF_TIER", "quick"), choices=["quick", "thorough"])
    ap.add_argument("--replay", default=None)
    ap.add_argument("--seed", type=int, default=None)
    a = ap.parse_args()

    # Determinism: fixed hash seed (re-exec once).
    if os.environ.get("PYTHONHASHSEED") != "0":
        env = dict(os.environ, PYTHONHASHSEED="0")
        os.execve(sys.executable, [sys.executable, "-m", "vpbt"] + sys.argv[1:], env)

    try:
        seed = a.seed if a.seed is not None else int(os.environ.get("VERIF_SEED", "1") or "1")
    except ValueError:
        seed = 1
    try:
        from vpbt.runner import run_property

        return run_property(a.property.upper(), a.tier, seed, a.replay)
    except SystemExit:
        raise
    except BaseException:
        print("HARNESS-ERROR:", file=sys.stderr)
        traceback.print_exc()
        return 2


if __name__ == "__main__":
    sys.exit(main())
