"""Discovery of the typed request helpers (`send_*` etc.) by introspection, with
type-directed argument synthesis and a spec-valid result payload per wire method.

A helper is any public coroutine function defined under chuk_mcp.protocol.messages.* that
takes `read_stream` and `write_stream` (i.e. it issues a request and waits).  New helpers
are picked up automatically; one we cannot drive is reported as an uncovered target."""
from __future__ import annotations

import importlib
import inspect
import pkgutil
import typing
from typing import Any, Callable, Dict, List, Optional, Tuple

BOOL_HELPERS = {"send_ping", "send_resources_subscribe", "send_resources_unsubscribe"}

# spec-valid result payloads per wire method (independent of the library's models)
VALID_RESULTS: Dict[str, Any] = {
    "ping": {},
    "initialize": {
        "protocolVersion": "$VERSION",
        "capabilities": {"tools": {"listChanged": True}},
        "serverInfo": {"name": "srv", "version": "1.0"},
    },
    "tools/list": {"tools": [{"name": "t", "description": "d", "inputSchema": {"type": "object", "properties": {}}}]},
    "tools/call": {"content": [{"type": "text", "text": "hi"}], "isError": False},
    "resources/list": {"resources": [{"uri": "file:///a", "name": "a"}]},
    "resources/read": {"contents": [{"uri": "file:///a", "text": "x", "mimeType": "text/plain"}]},
    "resources/templates/list": {"resourceTemplates": [{"uriTemplate": "file:///{p}", "name": "t"}]},
    "resources/subscribe": {},
    "resources/unsubscribe": {},
    "prompts/list": {"prompts": [{"name": "p", "description": "d"}]},
    "prompts/get": {"description": "d", "messages": [{"role": "user", "content": {"type": "text", "text": "hi"}}]},
    "logging/setLevel": {},
    "roots/list": {"roots": [{"uri": "file:///r", "name": "r"}]},
    "completion/complete": {"completion": {"values": ["a", "b"], "total": 2, "hasMore": False}},
    "sampling/createMessage": {"role": "assistant", "content": {"type": "text", "text": "ok"}, "model": "m", "stopReason": "endTurn"},
}

# explicit arguments where annotation-directed synthesis would not yield a valid call
EXPLICIT_ARGS: Dict[str, Dict[str, Any]] = {
    "send_tools_call": {"name": "t", "arguments": {"a": 1}},
    "send_prompts_get": {"name": "p", "arguments": {"x": "y"}},
    "send_resources_read": {"uri": "file:///a"},
    "send_resources_subscribe": {"uri": "file:///a"},
    "send_resources_unsubscribe": {"uri": "file:///a"},
    "send_logging_set_level": {"level": "info"},
    "send_completion_complete": {"ref": {"type": "ref/prompt", "name": "p"}, "argument": {"name": "a", "value": "v"}},
    "send_sampling_create_message": {"messages": [{"role": "user", "content": {"type": "text", "text": "q"}}], "max_tokens": 5},
    "sample_conversation": {"conversation": [("user", "q")]},
}


def _iter_modules():
    import chuk_mcp.protocol.messages as root

    for m in pkgutil.walk_packages(root.__path__, root.__name__ + "."):
        try:
            yield importlib.import_module(m.name)
        except Exception:
            continue


def discover_helpers() -> Dict[str, Callable]:
    found: Dict[str, Callable] = {}
    for mod in _iter_modules():
        for name, fn in vars(mod).items():
            if name.startswith("_") or not inspect.iscoroutinefunction(fn):
                continue
            if getattr(fn, "__module__", None) != mod.__name__:
                continue
            try:
                params = inspect.signature(fn).parameters
            except (TypeError, ValueError):
                continue
            if "read_stream" in params and "write_stream" in params and name != "send_message":
                found[name] = fn
    return dict(sorted(found.items()))


def discover_notification_senders() -> Dict[str, Callable]:
    """Public coroutine functions taking write_stream but no read_stream (fire-and-forget)."""
    found: Dict[str, Callable] = {}
    for mod in _iter_modules():
        for name, fn in vars(mod).items():
            if name.startswith("_") or not inspect.iscoroutinefunction(fn):
                continue
            if getattr(fn, "__module__", None) != mod.__name__:
                continue
            try:
                params = inspect.signature(fn).parameters
            except (TypeError, ValueError):
                continue
            if "write_stream" in params and "read_stream" not in params:
                found[f"{mod.__name__.rsplit('.', 2)[-2]}.{name}"] = fn
    return dict(sorted(found.items()))


def synth_value(ann: Any, name: str = "") -> Any:
    origin = typing.get_origin(ann)
    args = typing.get_args(ann)
    if ann is str:
        return "file:///x" if "uri" in name else "x"
    if ann is int:
        return 3
    if ann is float:
        return 0.5
    if ann is bool:
        return True
    if ann is Any or ann is inspect.Parameter.empty:
        return "x"
    if origin is typing.Union:
        non_none = [a for a in args if a is not type(None)]
        return synth_value(non_none[0], name)
    if origin is typing.Literal:
        return args[0]
    if origin in (list, List):
        return [synth_value(args[0], name)] if args else []
    if origin in (dict, Dict):
        return {}
    if origin is tuple:
        return tuple(synth_value(a, name) for a in args)
    if ann is dict:
        return {}
    if ann is list:
        return []
    raise TypeError(f"cannot synthesise {ann!r}")


def synth_args(name: str, fn: Callable) -> Dict[str, Any]:
    """Keyword arguments (besides the streams and timeout) for a valid call."""
    if name in EXPLICIT_ARGS:
        import copy

        return copy.deepcopy(EXPLICIT_ARGS[name])
    hints = {}
    try:
        hints = typing.get_type_hints(fn)
    except Exception:
        pass
    out: Dict[str, Any] = {}
    for pname, p in inspect.signature(fn).parameters.items():
        if pname in ("read_stream", "write_stream", "timeout"):
            continue
        if p.default is not inspect.Parameter.empty:
            continue  # optional: leave default
        out[pname] = synth_value(hints.get(pname, p.annotation), pname)
    return out


def valid_result_for(method: str, version: str = "2025-06-18") -> Optional[Any]:
    import copy

    r = VALID_RESULTS.get(method)
    if r is None:
        return None
    r = copy.deepcopy(r)
    if method == "initialize":
        r["protocolVersion"] = version
    return r
