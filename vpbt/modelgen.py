"""Model discovery and type-directed wire-object strategies.

Runs in the parent process (Pydantic backend): pydantic's `model_fields` gives resolved
annotations, aliases, defaults and numeric bounds.  Generated objects are *wire* objects
(plain JSON data using wire names); they are sent to backend workers for validation.
"""
from __future__ import annotations

import importlib
import inspect
import itertools
import pkgutil
import typing
from typing import Any, Dict, List, Optional, Tuple

from hypothesis import strategies as st

from .jsongen import json_objects, json_text, json_values

EXCLUDED_PREFIXES: Tuple[str, ...] = ()  # everything under chuk_mcp.protocol is traffic


def discover_models() -> Dict[str, type]:
    import chuk_mcp.protocol as P
    from chuk_mcp.protocol.mcp_pydantic_base import McpPydanticBase, PYDANTIC_AVAILABLE

    if not PYDANTIC_AVAILABLE:
        raise RuntimeError("modelgen must run under the Pydantic backend")
    seen: Dict[str, type] = {}
    for m in pkgutil.walk_packages(P.__path__, P.__name__ + "."):
        try:
            mod = importlib.import_module(m.name)
        except Exception:
            continue
        for n, o in vars(mod).items():
            if inspect.isclass(o) and issubclass(o, McpPydanticBase) and o is not McpPydanticBase and o.__module__ == mod.__name__:
                seen[f"{o.__module__}:{o.__qualname__}"] = o
    return dict(sorted(seen.items()))


def _resolve(ann: Any, cls: type) -> Any:
    if isinstance(ann, typing.ForwardRef):
        name = ann.__forward_arg__
        mod = importlib.import_module(cls.__module__)
        return getattr(mod, name)
    if isinstance(ann, str):
        mod = importlib.import_module(cls.__module__)
        return getattr(mod, ann)
    return ann


def fields_of(cls: type) -> List[Dict[str, Any]]:
    out = []
    for name, fi in cls.model_fields.items():  # type: ignore[attr-defined]
        ge = le = None
        for md in getattr(fi, "metadata", []) or []:
            if hasattr(md, "ge") and md.ge is not None:
                ge = md.ge
            if hasattr(md, "le") and md.le is not None:
                le = md.le
        out.append(
            {
                "name": name,
                "wire": fi.alias or name,
                "alias": fi.alias,
                "required": fi.is_required(),
                "annotation": _resolve(fi.annotation, cls),
                "default": None if fi.is_required() else (fi.default_factory() if getattr(fi, "default_factory", None) is not None else fi.default),
                "ge": ge,
                "le": le,
            }
        )
    return out


_safe_text = st.one_of(st.sampled_from(["x", "name", "é", "a b", "", "text/plain", "日本", "\U0001F600", "a\nb"]), json_text)
_ints = st.one_of(st.integers(-3, 100), st.sampled_from([0, 1, 2**31, 2**53 - 1]))


def _snake(v: str) -> str:
    return "".join("_" + c.lower() if c.isupper() else c for c in v).lstrip("_")


_SPELLINGS = (_snake, str.lower, lambda v: _snake(v).replace("_", "-"), lambda v: _snake(v).upper())


def value_strategy(ann: Any, cls: type, fname: str, depth: int, ge=None, le=None):
    from chuk_mcp.protocol.mcp_pydantic_base import McpPydanticBase

    ann = _resolve(ann, cls)
    origin = typing.get_origin(ann)
    args = typing.get_args(ann)
    if ann is Any:
        return json_values(4) if depth > 0 else st.sampled_from([1, "s", None, True])
    if ann is str:
        if fname in ("uri",):
            return st.builds(lambda s: "file:///" + s, st.text(alphabet="abc/é ", max_size=6))
        if fname == "jsonrpc":
            return st.just("2.0")
        return _safe_text
    if ann is bool:
        return st.booleans()
    if ann is int:
        return _ints
    if ann is float:
        lo = 0.0 if ge is None else float(ge)
        hi = 1.0 if le is None else float(le)
        if ge is None and le is None:
            return st.one_of(st.floats(-1e6, 1e6, allow_nan=False), st.sampled_from([0.5, 1.5, -2.25]))
        return st.one_of(st.floats(lo, hi, allow_nan=False), st.sampled_from([lo, hi, (lo + hi) / 2]))
    if ann is dict:
        return json_objects(4)
    if ann is list:
        return st.lists(json_values(3), max_size=3)
    if origin is typing.Literal:
        return st.sampled_from(list(args))
    if origin is typing.Union:
        arms = [a for a in args if a is not type(None)]
        strats = [value_strategy(a, cls, fname, depth, ge, le) for a in arms]
        lits = [v for a in arms if typing.get_origin(a) is typing.Literal for v in typing.get_args(a) if isinstance(v, str)]
        if lits and str in arms:
            # an open enumeration ("one of these, or any string"): other spellings of the known words are valid
            # wire values too and must come back as they were sent
            strats.append(st.sampled_from(sorted({f(v) for v in lits for f in _SPELLINGS} - set(lits))))
        return st.one_of(strats)
    if origin in (list, List):
        inner = value_strategy(args[0], cls, fname, depth - 1, ge, le) if args else json_values(3)
        return st.lists(inner, max_size=3)
    if origin in (dict, Dict):
        inner = value_strategy(args[1], cls, fname, depth - 1) if len(args) > 1 else json_values(3)
        return st.dictionaries(_safe_text, inner, max_size=3)
    if inspect.isclass(ann) and issubclass(ann, McpPydanticBase):
        return wire_strategy(ann, depth - 1)
    raise TypeError(f"no strategy for {ann!r} ({cls.__name__}.{fname})")


def _respellings(wire: str) -> List[str]:
    import re as _re

    if not any(c.isupper() for c in wire):
        return []
    snake = _re.sub(r"([A-Z])", lambda m: "_" + m.group(1).lower(), wire)
    return [snake, wire.lower(), wire[0].upper() + wire[1:], snake.replace("_", "-")]


def _envelope_override(cls: type, f: Dict[str, Any]):
    """The envelope classes declare error as Dict[str, Any] but require {code:int, message:str, data?}."""
    if f["name"] == "error" and cls.__module__.endswith("json_rpc_message"):
        return st.fixed_dictionaries({"code": st.integers(-32800, 100), "message": _safe_text}, optional={"data": json_values(3)})
    if f["name"] == "id" and cls.__module__.endswith("json_rpc_message"):
        from .jsongen import request_ids

        return request_ids
    if f["name"] == "params" and cls.__module__.endswith("json_rpc_message"):
        return json_objects(4)
    if f["name"] == "result" and cls.__name__ == "JSONRPCMessage":
        return json_objects(4)
    if f["name"] == "result" and cls.__name__ == "JSONRPCResponse":
        return st.one_of(json_objects(4), st.lists(json_values(2), max_size=2), st.integers(-5, 5), json_text, st.booleans())
    return None


@st.composite
def wire_strategy(draw, cls: type, depth: int = 3, all_aliases: bool = False, extras: bool = True, force_all: bool = False):
    fs = fields_of(cls)
    obj: Dict[str, Any] = {}
    is_unified = cls.__name__ == "JSONRPCMessage" and cls.__module__.endswith("json_rpc_message")
    if is_unified:
        # a valid unified message is one of the four envelope shapes
        shape = draw(st.sampled_from(["request", "notification", "result", "error"]))
        obj["jsonrpc"] = "2.0"
        by = {f["name"]: f for f in fs}
        if shape in ("request", "result", "error"):
            obj["id"] = draw(_envelope_override(cls, by["id"]))
        if shape == "error" and draw(st.integers(0, 2)) == 0:
            obj["id"] = None  # the reply to a message whose id could not be read: "id": null is part of the wire object
        if shape in ("request", "notification"):
            obj["method"] = draw(st.sampled_from(["ping", "tools/list", "notifications/progress", "x"]))
            if draw(st.booleans()):
                obj["params"] = draw(json_objects(4))
        if shape == "result":
            obj["result"] = draw(json_objects(4))
        if shape == "error":
            obj["error"] = draw(_envelope_override(cls, by["error"]))
        return obj
    for f in fs:
        populate = f["required"] or force_all or (all_aliases and f["alias"]) or draw(st.booleans())
        if depth <= 0 and not f["required"]:
            populate = False
        if not populate:
            continue
        ov = _envelope_override(cls, f)
        strat = ov if ov is not None else value_strategy(f["annotation"], cls, f["name"], depth, f["ge"], f["le"])
        obj[f["wire"]] = draw(strat)
    if cls.__name__ == "CompletionResult" and "values" in obj:
        obj["values"] = obj["values"][:100]
    if extras and depth > 0 and draw(st.integers(0, 2)) == 0:
        taken = {f["wire"] for f in fs} | {f["name"] for f in fs}
        # other spellings of the declared members (snake_case / lower-case / Capitalised of a camelCase name): to the
        # library these are unknown members like any other and travel untouched
        respelt = sorted({sp for f in fs for sp in _respellings(f["wire"])} - taken)
        if respelt and draw(st.integers(0, 2)) == 0:
            k = draw(st.sampled_from(respelt))
            src = next(f for f in fs if k in _respellings(f["wire"]))
            obj[k] = draw(st.one_of(st.integers(0, 5), json_text, st.just({"n": [1, None]}), value_strategy(src["annotation"], cls, src["name"], 1, src["ge"], src["le"])))
        # unknown members: vendor extensions of every spelling, and `_meta`, which the MCP schema reserves on every object
        for k in draw(st.lists(st.sampled_from(["x-extra", "vendor", "futureField", "é", "extra_", "_meta", "_meta", "_x", "__dunder__", "$schema", "snake_case", "0", "with space"]), max_size=2, unique=True)):
            if k not in taken:
                if k == "_meta":
                    obj[k] = draw(st.sampled_from([{"progressToken": "tok-1"}, {"vendor.example/x": 1}, {}]))
                else:
                    obj[k] = draw(st.one_of(st.integers(0, 5), json_text, st.just({"n": [1, None]}), st.booleans()))
    return obj


def deterministic_value(ann: Any, cls: type, fname: str, depth: int = 2) -> Any:
    """A fixed spec-valid value for an annotation (for exhaustive optional-subset enumeration)."""
    from chuk_mcp.protocol.mcp_pydantic_base import McpPydanticBase

    ann = _resolve(ann, cls)
    origin = typing.get_origin(ann)
    args = typing.get_args(ann)
    if ann is Any:
        return {"k": [1, None]}
    if ann is str:
        return "file:///a" if fname == "uri" else ("2.0" if fname == "jsonrpc" else "s")
    if ann is bool:
        return True
    if ann is int:
        return 7
    if ann is float:
        return 0.5
    if ann in (dict,):
        return {"k": "v"}
    if ann is list:
        return [1]
    if origin is typing.Literal:
        return args[0]
    if origin is typing.Union:
        arms = [a for a in args if a is not type(None)]
        return deterministic_value(arms[0], cls, fname, depth)
    if origin in (list, List):
        return [deterministic_value(args[0], cls, fname, depth - 1)] if args else [1]
    if origin in (dict, Dict):
        return {"k": deterministic_value(args[1], cls, fname, depth - 1)} if len(args) > 1 else {"k": 1}
    if inspect.isclass(ann) and issubclass(ann, McpPydanticBase):
        return {f["wire"]: deterministic_value(f["annotation"], ann, f["name"], depth - 1) for f in fields_of(ann) if f["required"]}
    raise TypeError(f"no deterministic value for {ann!r}")


def explicit_nulls(cls: type):
    """For every member declared nullable (Optional[...]): the required members plus that member present with the value
    null - what a peer that serialises without dropping empty members puts on the wire."""
    fs = fields_of(cls)
    if cls.__name__ == "JSONRPCMessage" and cls.__module__.endswith("json_rpc_message"):
        return
    base: Dict[str, Any] = {}
    for f in fs:
        if f["required"]:
            if f["name"] == "error" and cls.__module__.endswith("json_rpc_message"):
                base[f["wire"]] = {"code": -32000, "message": "m"}
            else:
                base[f["wire"]] = deterministic_value(f["annotation"], cls, f["name"])
    for f in fs:
        ann = _resolve(f["annotation"], cls)
        if not f["required"] and typing.get_origin(ann) is typing.Union and type(None) in typing.get_args(ann):
            yield f["wire"], dict(base, **{f["wire"]: None})


def optional_subsets(cls: type, max_optional: int = 6):
    """All optional-field subsets (required fields always present) with fixed values."""
    fs = fields_of(cls)
    req = [f for f in fs if f["required"]]
    opt = [f for f in fs if not f["required"]]
    if len(opt) > max_optional or (cls.__name__ == "JSONRPCMessage" and cls.__module__.endswith("json_rpc_message")):
        return
    base: Dict[str, Any] = {}
    for f in req:
        if f["name"] == "error" and cls.__module__.endswith("json_rpc_message"):
            base[f["wire"]] = {"code": -32000, "message": "m"}
        else:
            base[f["wire"]] = deterministic_value(f["annotation"], cls, f["name"])
    for n in range(len(opt) + 1):
        for combo in itertools.combinations(opt, n):
            o = dict(base)
            for f in combo:
                o[f["wire"]] = deterministic_value(f["annotation"], cls, f["name"])
            yield o
