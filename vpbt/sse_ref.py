"""Reference Server-Sent-Events encoder (many spec-conformant encodings) and parser
(WHATWG HTML 'event stream interpretation' algorithm).  No chuk_mcp import."""
from __future__ import annotations

import json
import re
from typing import Any, Dict, List, Optional, Tuple


def parse_events(text: str, flush_tail: bool = False) -> List[Tuple[str, str]]:
    """-> [(event type, data)] for every dispatched event.  `flush_tail`: also dispatch an
    event that is not terminated by a blank line (the spec discards it; some servers rely on it)."""
    if text.startswith("\ufeff"):
        text = text[1:]
    lines = re.split(r"\r\n|\n|\r", text)
    # a trailing partial line (no terminator) is not a line yet; split() gives it as the last item
    tail = lines.pop() if lines else ""
    events: List[Tuple[str, str]] = []
    etype = ""
    data: List[str] = []
    have_data = False

    def dispatch() -> None:
        nonlocal etype, data, have_data
        if have_data:
            events.append((etype or "message", "\n".join(data)))
        etype = ""
        data = []
        have_data = False

    def field(line: str) -> None:
        nonlocal etype, have_data
        if line.startswith(":"):
            return
        if ":" in line:
            name, value = line.split(":", 1)
            if value.startswith(" "):
                value = value[1:]
        else:
            name, value = line, ""
        if name == "event":
            etype = value
        elif name == "data":
            data.append(value)
            have_data = True

    for line in lines:
        if line == "":
            dispatch()
        else:
            field(line)
    if flush_tail:
        if tail:
            field(tail)
        dispatch()
    return events


def encode_event(data: str, *, event: Optional[str] = "message", space: bool = True, eol: str = "\n", comment: bool = False,
                 id_field: Optional[str] = None, retry: Optional[int] = None, split_data: bool = False, event_after_data: bool = False) -> str:
    sp = " " if space else ""
    out: List[str] = []
    if comment:
        out.append(": keep-alive")
    if id_field is not None:
        out.append(f"id:{sp}{id_field}")
    if retry is not None:
        out.append(f"retry:{sp}{retry}")
    ev = [f"event:{sp}{event}"] if event is not None else []
    if split_data:
        dl = [f"data:{sp}{part}" for part in data.split("\n")]
    else:
        dl = [f"data:{sp}{data}"]
    out += (dl + ev) if event_after_data else (ev + dl)
    return eol.join(out) + eol + eol


def jsonrpc_messages(text: str, classify, flush_tail: bool = False) -> List[Any]:
    """Every JSON-RPC message carried by 'message' events of an SSE body, in order."""
    msgs: List[Any] = []
    for etype, data in parse_events(text, flush_tail):
        if etype != "message":
            continue
        try:
            v = json.loads(data)
        except Exception:
            continue
        if isinstance(v, dict) and classify(v)[0] is not None:
            msgs.append(v)
    return msgs
