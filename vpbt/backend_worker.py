"""Worker process with a chosen validation backend (Pydantic / fallback) and JSON backend
(orjson / stdlib).  Protocol: length-prefixed pickles on stdin/stdout.

    python -m vpbt.backend_worker <fallback:0|1> <orjson:0|1>

Requests are dicts {"op": ..., ...}; see handle().  The parent never shares Python state
with the worker, so backend selection (done at import time by the library) is real.
"""
from __future__ import annotations

import os
import pickle
import struct
import sys
import traceback
from typing import Any, Dict, List


def _read(f) -> Any:
    hdr = f.read(8)
    if len(hdr) < 8:
        return None
    (n,) = struct.unpack(">Q", hdr)
    return pickle.loads(f.read(n))


def _write(f, obj: Any) -> None:
    data = pickle.dumps(obj, protocol=4)
    f.write(struct.pack(">Q", len(data)))
    f.write(data)
    f.flush()


def type_tree(x: Any) -> Any:
    """type names at every level of a validated object."""
    if hasattr(x, "model_dump") and hasattr(x, "__class__") and not isinstance(x, dict):
        fields = {}
        d = getattr(x, "__dict__", {})
        for k, v in d.items():
            if k.startswith("_"):
                continue
            t = type_tree(v)
            if t is not None:
                fields[k] = t
        return {"$model": type(x).__name__, **fields}
    if isinstance(x, list):
        sub = [type_tree(v) for v in x]
        return sub if any(s is not None for s in sub) else None
    if isinstance(x, dict):
        sub = {k: type_tree(v) for k, v in x.items()}
        sub = {k: v for k, v in sub.items() if v is not None}
        return sub or None
    return None


def _share_equal_containers(v: Any, pool: Any = None) -> Any:
    import json as _json

    pool = {} if pool is None else pool
    if isinstance(v, dict):
        v = {k: _share_equal_containers(x, pool) for k, x in v.items()}
    elif isinstance(v, list):
        v = [_share_equal_containers(x, pool) for x in v]
    else:
        return v
    if not v:
        return v
    key = type(v).__name__ + _json.dumps(v, sort_keys=True, default=str)
    return pool.setdefault(key, v)


def _plain(v: Any) -> Any:
    if hasattr(v, "model_dump") and not isinstance(v, dict):
        return v.model_dump(by_alias=True, exclude_none=True)
    if isinstance(v, list):
        return [_plain(x) for x in v]
    if isinstance(v, dict):
        return {k: _plain(x) for k, x in v.items()}
    return v


def resolve(target: str):
    import importlib

    mod, qual = target.split(":")
    obj = importlib.import_module(mod)
    for part in qual.split("."):
        obj = getattr(obj, part)
    return obj


def handle(req: Dict[str, Any]) -> Any:
    op = req["op"]
    if op == "info":
        import chuk_mcp.protocol.fast_json as fj
        import chuk_mcp.protocol.mcp_pydantic_base as b

        return {"pydantic": bool(getattr(b, "PYDANTIC_AVAILABLE", None)), "orjson": bool(fj.HAS_ORJSON), "file": b.__file__}
    if op == "json_encode":
        import chuk_mcp.protocol.fast_json as fj
        from chuk_mcp.protocol.messages.json_rpc_message import JSONRPCRequest, JSONRPCResponse

        out = []
        for v in req["values"]:
            r: Dict[str, Any] = {}
            for name, fn in (
                ("dumps", lambda: fj.dumps(v)),
                ("dumps_compact", lambda: fj.dumps(v, separators=(",", ":"))),
                # "no pretty printing" spelled out, as the fallback validation backend's model_dump_json passes it
                ("dumps_indent_none", lambda: fj.dumps(v, indent=None)),
                # encoding must be a function of the value alone: a pretty-printing call in between
                # (server.py formats dict tool results with indent=2) must not change later compact output
                ("dumps_after_pretty", lambda: (fj.dumps({"x": [v]}, indent=2), fj.dumps(v))[1]),
                ("model_request", lambda: JSONRPCRequest(id=1, method="m", params={"v": v}).model_dump_json(exclude_none=True)),
                ("model_response", lambda: JSONRPCResponse(id=1, result={"v": v}).model_dump_json(exclude_none=True)),
                # an object value as the params / result itself (its member names are first-level names of the envelope)
                ("model_request_top", lambda: JSONRPCRequest(id=1, method="m", params=v).model_dump_json(exclude_none=True) if isinstance(v, dict) else ("$skip",)),
                ("model_response_top", lambda: JSONRPCResponse(id=1, result=v).model_dump_json(exclude_none=True) if isinstance(v, dict) and v else ("$skip",)),
            ):
                try:
                    r[name] = fn()
                except Exception as e:  # noqa
                    r[name] = ("$error", f"{type(e).__name__}: {e}")
            out.append(r)
        return out
    if op == "json_decode":
        import chuk_mcp.protocol.fast_json as fj

        out = []
        for s in req["texts"]:
            try:
                out.append(("ok", fj.loads(s)))
            except Exception as e:  # noqa
                out.append(("error", f"{type(e).__name__}: {e}"))
        return out
    if op == "json_decode_digest":
        # for documents too deep to send back as values: decode, then describe the value by an iterative walk
        import hashlib

        import chuk_mcp.protocol.fast_json as fj

        out = []
        for s in req["texts"]:
            for form in ("str", "bytes"):
                try:
                    v = fj.loads(s if form == "str" else s.encode("utf-8"))
                except BaseException as e:  # noqa  (RecursionError, MemoryError are outcomes too)
                    if isinstance(e, (KeyboardInterrupt, SystemExit)):
                        raise
                    out.append(("error", type(e).__name__))
                    continue
                h = hashlib.sha256()
                stack = [v]
                depth_marks = 0
                while stack:
                    x = stack.pop()
                    if isinstance(x, dict):
                        h.update(b"{%d" % len(x))
                        for k_ in sorted(x, reverse=True):
                            stack.append(x[k_])
                            stack.append("$key:" + k_)
                        depth_marks += 1
                    elif isinstance(x, list):
                        h.update(b"[%d" % len(x))
                        stack.extend(reversed(x))
                        depth_marks += 1
                    else:
                        h.update((type(x).__name__ + ":" + repr(x)).encode("utf-8", "surrogatepass"))
                out.append(("ok", h.hexdigest(), depth_marks))
        return out
    if op == "validate":
        out = []
        for target, how, data in req["cases"]:
            try:
                cls = resolve(target)
                if how == "parse_message":
                    obj = cls(data)
                elif how == "kwargs":
                    obj = cls(**data)
                else:
                    if how == "validate_shared":
                        # an application that builds its objects in Python reuses fragments: every pair of equal
                        # containers in the input becomes ONE object referenced from both places (sharing, not a cycle)
                        data = _share_equal_containers(data)
                    obj = cls.model_validate(data)
                    if how == "validate_plain_first":
                        # the application looks at the object under its Python names first (logging, a cache key ...)
                        obj.model_dump()
                if isinstance(obj, list):
                    dump = [o.model_dump(by_alias=True, exclude_none=True) for o in obj]
                    tt: Any = [type_tree(o) for o in obj]
                    dj = None
                else:
                    dump = obj.model_dump(by_alias=True, exclude_none=True)
                    tt = type_tree(obj)
                    # typed view: what attribute access gives for each declared field
                    fnames = list(getattr(type(obj), "model_fields", None) or getattr(type(obj), "__model_fields__", {}) or [])
                    attrs = {}
                    for fn_ in fnames:
                        try:
                            attrs[fn_] = _plain(getattr(obj, fn_))
                        except Exception as e:  # noqa
                            attrs[fn_] = ("$error", str(e))
                    tt = {"$tt": tt, "$attrs": attrs}
                    # the other dump modes a caller may use (nulls kept; JSON mode)
                    for key_, kw_ in (("$dump_alias_only", {"by_alias": True}), ("$dump_alias_json_mode", {"by_alias": True, "exclude_none": True, "mode": "json"})):
                        try:
                            tt[key_] = obj.model_dump(**kw_)
                        except Exception as e:  # noqa
                            tt[key_] = ("$error", f"{type(e).__name__}: {e}")
                    try:
                        dj = obj.model_dump_json(by_alias=True, exclude_none=True)
                    except Exception as e:  # noqa
                        dj = ("$error", f"{type(e).__name__}: {e}")
                out.append(("accept", tt, dump, dj))
            except Exception as e:  # noqa
                out.append(("reject", type(e).__name__, str(e)[:300], None))
        return out
    if op == "build":
        # [(function target, kwargs)] -> the wire form of what a create_* builder returns
        out = []
        for fn_target, kwargs in req["calls"]:
            try:
                r = resolve(fn_target)(**kwargs)
                res: Dict[str, Any] = {"type": type(r).__name__}
                if hasattr(r, "model_dump") and not isinstance(r, dict):
                    res["wire"] = r.model_dump(by_alias=True, exclude_none=True)
                    if type(r).__name__ in ("ToolResult", "CallToolResult"):
                        from chuk_mcp.protocol.types.tools import tool_result_to_dict

                        try:
                            res["to_dict"] = tool_result_to_dict(r)
                        except Exception as e:  # noqa
                            res["to_dict"] = ("$error", f"{type(e).__name__}: {e}")
                elif isinstance(r, (dict, list)):
                    res["wire"] = _plain(r)
                out.append(("ok", res))
            except Exception as e:  # noqa
                out.append(("error", f"{type(e).__name__}: {e}"))
        return out
    if op == "history":
        # what this process did earlier: client handshakes that settled on the given revisions (in-memory peer)
        import asyncio

        import anyio

        from chuk_mcp.protocol.messages.initialize.send_messages import send_initialize
        from chuk_mcp.protocol.messages.json_rpc_message import parse_message

        async def go(version: str) -> Any:
            s_send, s_recv = anyio.create_memory_object_stream(10)
            c_send, c_recv = anyio.create_memory_object_stream(10)

            async def server() -> None:
                msg = await s_recv.receive()
                w = msg.model_dump(exclude_none=True) if hasattr(msg, "model_dump") else msg
                await c_send.send(parse_message({"jsonrpc": "2.0", "id": w["id"], "result": {"protocolVersion": version, "capabilities": {}, "serverInfo": {"name": "earlier-peer", "version": "1"}}}))
                with anyio.move_on_after(0.2):
                    await s_recv.receive()

            async with anyio.create_task_group() as tg:
                tg.start_soon(server)
                r = await send_initialize(c_recv, s_send, timeout=5)
            return getattr(r, "protocolVersion", None)

        return [asyncio.run(go(v)) for v in req["handshakes"]]
    if op == "apply":
        # [(function target, [(model target | None, wire)], kwargs)] -> what the function returns, observed as a transport would
        import asyncio
        import inspect

        out = []
        for fn_target, margs, kwargs in req["calls"]:
            try:
                fn = resolve(fn_target)
                args = []
                for mt, w in margs:
                    if mt is None:
                        args.append(w)
                    elif isinstance(w, list):
                        args.append([resolve(mt).model_validate(x) for x in w])
                    else:
                        args.append(resolve(mt).model_validate(w))
                r = fn(*args, **kwargs)
                if inspect.iscoroutine(r):
                    r = asyncio.run(r)
                if hasattr(r, "model_dump"):
                    r = r.model_dump(exclude_none=True)
                out.append(("ok", r))
            except Exception as e:  # noqa
                out.append(("error", f"{type(e).__name__}: {e}"))
        return out
    if op == "call":
        out = []
        for target, args, kwargs in req["calls"]:
            try:
                fn = resolve(target)
                out.append(("ok", fn(*args, **kwargs)))
            except Exception as e:  # noqa
                out.append(("error", f"{type(e).__name__}: {e}"))
        return out
    raise ValueError(op)


def main() -> None:
    fallback, orjson_on = sys.argv[1] == "1", sys.argv[2] == "1"
    if fallback:
        os.environ["MCP_FORCE_FALLBACK"] = "1"
    else:
        os.environ.pop("MCP_FORCE_FALLBACK", None)
    if not orjson_on:
        sys.modules["orjson"] = None  # type: ignore
    repo = os.environ.get("VERIF_REPO", "/repo")
    sys.path.insert(0, os.path.join(repo, "src"))
    import logging

    logging.disable(logging.CRITICAL)
    import warnings

    warnings.filterwarnings("ignore")
    fin, fout = sys.stdin.buffer, sys.stdout.buffer
    sys.stdout = sys.stderr  # nothing else may write to the pipe
    while True:
        req = _read(fin)
        if req is None:
            return
        try:
            _write(fout, ("ok", handle(req)))
        except BaseException:
            _write(fout, ("err", traceback.format_exc()))


class Worker:
    """Parent-side handle."""

    def __init__(self, fallback: bool, orjson_on: bool) -> None:
        import subprocess

        env = dict(os.environ, PYTHONHASHSEED="0")
        env.pop("MCP_FORCE_FALLBACK", None)
        root = os.path.dirname(os.path.dirname(os.path.abspath(__file__)))
        env["PYTHONPATH"] = root + os.pathsep + env.get("PYTHONPATH", "")
        self.p = subprocess.Popen(
            [sys.executable, "-m", "vpbt.backend_worker", "1" if fallback else "0", "1" if orjson_on else "0"],
            stdin=subprocess.PIPE, stdout=subprocess.PIPE, env=env, cwd=root,
        )
        self.fallback, self.orjson_on = fallback, orjson_on
        info = self.request({"op": "info"})
        if info["pydantic"] is fallback or info["orjson"] is not orjson_on:
            raise RuntimeError(f"worker backend selection failed: wanted fallback={fallback} orjson={orjson_on}, got {info}")
        self.info = info

    def request(self, req: Dict[str, Any]) -> Any:
        _write(self.p.stdin, req)
        r = _read(self.p.stdout)
        if r is None:
            raise RuntimeError("worker died")
        status, payload = r
        if status != "ok":
            raise RuntimeError("worker error:\n" + payload)
        return payload

    def close(self) -> None:
        try:
            self.p.stdin.close()
            self.p.wait(timeout=10)
        except Exception:
            self.p.kill()


_POOL: Dict[Any, List["Worker"]] = {}


def get_workers(specs) -> List["Worker"]:
    """Per-process cache of workers (keyed by pid so forked children never share pipes)."""
    import atexit

    key = (os.getpid(), tuple(specs))
    if key not in _POOL:
        ws = [Worker(fb, oj) for fb, oj in specs]
        _POOL[key] = ws
        atexit.register(lambda: [w.close() for w in ws])
    return _POOL[key]


if __name__ == "__main__":
    main()
