"""JSON value generators: a bounded-exhaustive grammar over a leaf alphabet and Hypothesis
strategies for seeded deep values.  Pure data, no chuk_mcp import."""
from __future__ import annotations

import itertools
from typing import Any, Iterator, List

from hypothesis import strategies as st

I64_MIN = -(2**63)
U64_MAX = 2**64 - 1

LEAVES: List[Any] = [
    None, True, False, 0, -1, 1, 2**53 + 1, 2**63, U64_MAX, I64_MIN, 1.5, -0.0, 1e308, 5e-324,
    "", "a", "\n", "\r\n", " ", "\u0085", "\x00", "\U0001F600", "é", '"\\', "123",
]

KEYS = ["k", "", "é", "a\nb", "_meta", "\U0001F600"]


def is_nontrivial_json(v: Any) -> bool:
    """contains a nested null, a non-ASCII/control character, an int beyond 2^53 or a non-integral float"""
    if v is None:
        return True
    if isinstance(v, bool):
        return False
    if isinstance(v, int):
        return abs(v) > 2**53
    if isinstance(v, float):
        return v != int(v) if abs(v) < 1e300 else True
    if isinstance(v, str):
        return any(ord(c) < 0x20 or ord(c) > 0x7E for c in v)
    if isinstance(v, list):
        return any(is_nontrivial_json(x) for x in v)
    if isinstance(v, dict):
        return any(is_nontrivial_json(k) or is_nontrivial_json(x) for k, x in v.items())
    return False


def grammar(depth: int, leaves: List[Any] = LEAVES, keys: List[str] = KEYS[:2], width: int = 2) -> Iterator[Any]:
    """All JSON values of nesting depth <= depth: leaves, lists of <= width members and
    objects with <= width members (keys taken in order from `keys`)."""
    for leaf in leaves:
        yield leaf
    if depth <= 0:
        return
    yield []
    yield {}
    subs = list(grammar(depth - 1, leaves, keys, width))
    for n in range(1, width + 1):
        for combo in itertools.product(subs, repeat=n):
            yield list(combo)
            yield {keys[i % len(keys)] if i < len(keys) else f"k{i}": combo[i] for i in range(n)}


def grammar_objects(depth: int, leaves: List[Any], keys: List[str], width: int = 2) -> Iterator[dict]:
    """Objects only (for params / result-object positions)."""
    yield {}
    subs = list(grammar(depth - 1, leaves, keys, width))
    for n in range(1, width + 1):
        for ks in itertools.combinations(keys, n):
            for combo in itertools.product(subs, repeat=n):
                yield dict(zip(ks, combo))


# ------------------------------------------------------------------ hypothesis strategies

_text_alphabet = st.one_of(
    st.characters(min_codepoint=0x20, max_codepoint=0x7E),
    st.sampled_from(list("\n\r\t\x00\x1f\x7f\u0085  é€﻿￿\U0001F600\U0010FFFF\"\\/")),
    st.characters(blacklist_categories=("Cs",)),
)

json_text = st.text(alphabet=_text_alphabet, max_size=12)

json_ints = st.one_of(
    st.integers(min_value=-10, max_value=10),
    st.sampled_from([2**53, 2**53 + 1, -(2**53) - 1, 2**63 - 1, 2**63, U64_MAX, I64_MIN, I64_MIN + 1, 2**31, 2**32]),
    st.integers(min_value=I64_MIN, max_value=U64_MAX),
)

json_floats = st.one_of(
    st.sampled_from([0.0, -0.0, 1.5, -1.5, 1e308, -1e308, 5e-324, 2.2250738585072014e-308, 0.1, 1e-7, 1e16, 1e22, 123456789.125]),
    st.floats(allow_nan=False, allow_infinity=False),
)

json_leaves = st.one_of(st.none(), st.booleans(), json_ints, json_floats, json_text)


def json_values(max_leaves: int = 12):
    return st.recursive(
        json_leaves,
        lambda ch: st.one_of(st.lists(ch, max_size=4), st.dictionaries(json_text, ch, max_size=4)),
        max_leaves=max_leaves,
    )


def json_objects(max_leaves: int = 12):
    return st.dictionaries(json_text, json_values(max_leaves), max_size=4)


# request ids over the documented domain
id_ints = st.one_of(
    st.sampled_from([0, -1, 1, 7, 123, 2**31, 2**53 + 1, 2**63, U64_MAX, I64_MIN, -(2**31)]),
    st.integers(min_value=I64_MIN, max_value=U64_MAX),
)
id_strs = st.one_of(
    st.sampled_from(["", "0", "7", "123", "007", "-5", "1e3", "abc", "req-1", "١٢", "１２", " 1", "1 ", "null", "true"]),
    st.uuids().map(str),
    json_text,
)
request_ids = st.one_of(id_ints, id_strs)


def id_is_interesting(i: Any) -> bool:
    if isinstance(i, int):
        return i <= 0 or i >= 2**63 or i > 2**53
    return i == "" or i.lstrip("-").isdigit() or any(ord(c) > 0x7E or ord(c) < 0x20 for c in i)
