"""setup_cmd: make sure hypothesis is importable in /venv and atheris is available under
/verif/.deps (both from the offline wheelhouse).  Idempotent; never touches the network."""
import os
import subprocess
import sys

ROOT = os.path.dirname(os.path.dirname(os.path.abspath(__file__)))
WHEELS = "/opt/veriftools/wheels"


def pip(*args: str) -> int:
    env = dict(os.environ, PIP_NO_INDEX="1", PIP_DISABLE_PIP_VERSION_CHECK="1")
    return subprocess.call([sys.executable, "-m", "pip", "install", "-q", "--no-index", "--find-links", WHEELS, *args], env=env)


def main() -> int:
    try:
        import hypothesis  # noqa
    except ImportError:
        if pip("hypothesis") != 0:
            print("setup: could not install hypothesis", file=sys.stderr)
            return 1
    deps = os.path.join(ROOT, ".deps")
    sys.path.insert(0, deps)
    try:
        import atheris  # noqa
    except ImportError:
        os.makedirs(deps, exist_ok=True)
        if pip("--target", deps, "atheris") != 0:
            print("setup: atheris not installable (thorough fuzz jobs will be skipped and say so)", file=sys.stderr)
    import chuk_mcp

    print("setup ok: hypothesis present; chuk_mcp from", chuk_mcp.__file__)
    return 0


if __name__ == "__main__":
    sys.exit(main())
