"""Scripted stand-in for anyio.abc.Process, installed by patching `anyio.open_process`.

stdout: chunks the harness feeds (bytes or str), delivered in order through an unbounded
memory stream; `close_stdout()` ends the stream (EOF).  stdin: records every `send` with the
virtual instant; `aclose()` marks it closed.  terminate()/kill() end the process (stdout
EOF, wait() returns) unless the script says the child ignores SIGTERM.
"""
from __future__ import annotations

import asyncio
import math
from contextlib import contextmanager
from typing import Any, Dict, List, Optional, Tuple

import anyio


class FakeStdout:
    def __init__(self) -> None:
        self._send, self._recv = anyio.create_memory_object_stream(math.inf)
        self.closed = False

    def feed(self, chunk: Any) -> None:
        self._send.send_nowait(chunk)

    def close(self) -> None:
        if not self.closed:
            self.closed = True
            self._send.close()

    def __aiter__(self):
        return self

    async def __anext__(self):
        try:
            return await self._recv.receive()
        except (anyio.EndOfStream, anyio.ClosedResourceError):
            raise StopAsyncIteration

    async def receive(self, max_bytes: int = 65536):
        return await self._recv.receive()

    async def aclose(self) -> None:
        self._recv.close()


class FakeStdin:
    def __init__(self, owner: "FakeProcess") -> None:
        self.writes: List[Tuple[float, bytes]] = []
        self.closed = False
        self.close_count = 0
        self._owner = owner
        self.fail_after: Optional[int] = None  # raise BrokenResourceError after n sends
        self.gate: Optional[asyncio.Event] = None  # when set and not yet fired: the child is not reading its stdin (pipe full)
        # what a write does while the gate is closed: "full" - the pipe is already full, no byte is taken until the child
        # reads again; "queued" - an asyncio pipe transport: write() queues the whole frame at once (it will reach the child,
        # in order, whatever happens to the caller) and only drain() waits for the child
        self.stall_mode = "full"

    async def send(self, data: bytes) -> None:
        await asyncio.sleep(0)
        if self.gate is not None and self.stall_mode == "queued" and not self.gate.is_set():
            if self.closed:
                raise anyio.ClosedResourceError
            self.writes.append((asyncio.get_running_loop().time(), data))
            await self.gate.wait()
            if self._owner.on_stdin is not None:
                self._owner.on_stdin(data)
            return
        if self.gate is not None:
            await self.gate.wait()
        if self.closed:
            raise anyio.ClosedResourceError
        if self.fail_after is not None and len(self.writes) >= self.fail_after:
            raise anyio.BrokenResourceError
        self.writes.append((asyncio.get_running_loop().time(), data))
        if self._owner.on_stdin is not None:
            self._owner.on_stdin(data)

    async def aclose(self) -> None:
        self.closed = True
        self.close_count += 1

    @property
    def data(self) -> bytes:
        return b"".join(d if isinstance(d, bytes) else str(d).encode() for _, d in self.writes)


class FakeProcess:
    def __init__(self, argv: List[str], kwargs: Dict[str, Any], ignore_sigterm: bool = False) -> None:
        self.argv = argv
        self.kwargs = kwargs
        self.pid = 4242
        self.returncode: Optional[int] = None
        self.stdout = FakeStdout()
        self.stdin = FakeStdin(self)
        self.stderr = None
        self.ignore_sigterm = ignore_sigterm
        self.signals: List[str] = []
        self._exited = asyncio.Event()
        self.on_stdin = None

    def _exit(self, code: int) -> None:
        if self.returncode is None:
            self.returncode = code
            self.stdout.close()
            self._exited.set()

    def terminate(self) -> None:
        self.signals.append("TERM")
        if not self.ignore_sigterm:
            self._exit(-15)

    def kill(self) -> None:
        self.signals.append("KILL")
        self._exit(-9)

    def send_signal(self, sig: int) -> None:
        self.signals.append(f"SIG{sig}")

    async def wait(self) -> int:
        await self._exited.wait()
        return self.returncode  # type: ignore

    async def aclose(self) -> None:
        self._exit(0)


@contextmanager
def patched_open_process(procs: List[FakeProcess], ignore_sigterm: bool = False, fail: Optional[BaseException] = None):
    """Patch anyio.open_process; every spawned FakeProcess is appended to `procs`."""
    orig = anyio.open_process

    async def fake_open_process(command, **kwargs):
        if fail is not None:
            raise fail
        p = FakeProcess(list(command) if not isinstance(command, (str, bytes)) else [command], kwargs, ignore_sigterm)
        procs.append(p)
        return p

    anyio.open_process = fake_open_process  # type: ignore
    try:
        yield
    finally:
        anyio.open_process = orig  # type: ignore


def stdio_params(command: str = "/fake/server", args: Optional[List[str]] = None, env: Optional[Dict[str, str]] = None):
    from chuk_mcp.transports.stdio.parameters import StdioParameters

    return StdioParameters(command=command, args=args or [], env=env)
