"""Independent JSON-RPC 2.0 grammar validator / classifier and type-strict equality.

Nothing here imports chuk_mcp.
"""
from __future__ import annotations

import math
import struct
from typing import Any, Optional, Tuple


def is_id(v: Any) -> bool:
    return (isinstance(v, int) and not isinstance(v, bool)) or isinstance(v, str)


def classify(obj: Any) -> Tuple[Optional[str], str]:
    """Return (kind, why).  kind in {request, notification, result, error} or None when the
    object is not a valid JSON-RPC 2.0 message."""
    if not isinstance(obj, dict):
        return None, "not an object"
    if obj.get("jsonrpc") != "2.0" or not isinstance(obj.get("jsonrpc"), str):
        return None, "jsonrpc != '2.0'"
    has_method = "method" in obj
    has_id = "id" in obj
    has_result = "result" in obj
    has_error = "error" in obj
    if has_method:
        if not isinstance(obj["method"], str):
            return None, "method not a string"
        if has_result or has_error:
            return None, "method together with result/error"
        if "params" in obj and not isinstance(obj["params"], (dict, list)):
            return None, "params not structured"
        if has_id:
            if not is_id(obj["id"]):
                return None, "request id not string/int"
            return "request", ""
        return "notification", ""
    if has_result and has_error:
        return None, "both result and error"
    if has_result:
        if not has_id or not is_id(obj["id"]):
            return None, "result without string/int id"
        return "result", ""
    if has_error:
        if not has_id:
            return None, "error without id member"
        if obj["id"] is not None and not is_id(obj["id"]):
            return None, "error id not string/int/null"
        e = obj["error"]
        if not isinstance(e, dict):
            return None, "error not an object"
        if not (isinstance(e.get("code"), int) and not isinstance(e.get("code"), bool)):
            return None, "error code not an integer"
        if not isinstance(e.get("message"), str):
            return None, "error message not a string"
        return "error", ""
    return None, "neither method nor result nor error"


def strict_eq(a: Any, b: Any) -> bool:
    """Deep equality where 1, 1.0, True and "1" are four different values and -0.0 != 0.0."""
    if isinstance(a, bool) or isinstance(b, bool):
        return isinstance(a, bool) and isinstance(b, bool) and a == b
    if isinstance(a, int) and isinstance(b, int):
        return a == b
    if isinstance(a, float) and isinstance(b, float):
        if math.isnan(a) and math.isnan(b):
            return True
        return struct.pack(">d", a) == struct.pack(">d", b)
    if isinstance(a, str) and isinstance(b, str):
        return a == b
    if a is None or b is None:
        return a is None and b is None
    if isinstance(a, (list, tuple)) and isinstance(b, (list, tuple)):
        return len(a) == len(b) and all(strict_eq(x, y) for x, y in zip(a, b))
    if isinstance(a, dict) and isinstance(b, dict):
        if set(a.keys()) != set(b.keys()):
            return False
        return all(strict_eq(a[k], b[k]) for k in a)
    return False


def first_diff(a: Any, b: Any, path: str = "$") -> Optional[str]:
    if strict_eq(a, b):
        return None
    if isinstance(a, dict) and isinstance(b, dict):
        for k in sorted(set(a) | set(b), key=str):
            if k not in a:
                return f"{path}.{k}: missing on left (right={b[k]!r})"
            if k not in b:
                return f"{path}.{k}: missing on right (left={a[k]!r})"
            d = first_diff(a[k], b[k], f"{path}.{k}")
            if d:
                return d
    if isinstance(a, (list, tuple)) and isinstance(b, (list, tuple)):
        if len(a) != len(b):
            return f"{path}: length {len(a)} != {len(b)}"
        for i, (x, y) in enumerate(zip(a, b)):
            d = first_diff(x, y, f"{path}[{i}]")
            if d:
                return d
    return f"{path}: {a!r} ({type(a).__name__}) != {b!r} ({type(b).__name__})"


def msg_to_wire(msg: Any) -> Any:
    """Observe a library message object the way a peer would: what would go on the wire.

    Uses only the public dump API with absent optionals omitted; lists (batches) map to
    lists."""
    if isinstance(msg, list):
        return [msg_to_wire(m) for m in msg]
    if isinstance(msg, dict):
        return msg
    d = msg.model_dump(exclude_none=True)
    return d
