"""C11 - Streamable HTTP: exactly one terminal message per request, whatever the server."""
from __future__ import annotations

import asyncio
import itertools
import json
from typing import Any, Dict, List, Optional, Tuple

import anyio
import httpx
from hypothesis import strategies as st

from ..fakehttp import install
from ..jsonrpc_ref import classify, first_diff, strict_eq
from ..runner import Collector, Outcome, hyp_run, hyp_shrink
from ..sse_ref import encode_event, jsonrpc_messages
from ..vclock import run_virtual

ID = "C11"
LEVEL = "fault_enumeration"
RULE = (
    "case = sequence (<=4) of (outgoing request with str/int id or notification, scripted server behaviour) through http_client() over httpx.MockTransport, followed by a well-behaved probe request; "
    "behaviour = status {200,202,204,301/302/307 with/without Location,400,401,404,429,500,503} x content-type {json, json;charset, event-stream, text/plain, absent} x body {matching result, matching error, "
    "batch array, notifications+response, wrong id, empty, truncated JSON, non-JSON text, non-UTF-8 bytes, JSON scalar, {}} x SSE encoding {event field present/absent/after data, space after colon or not, LF/CRLF, "
    "comment lines, id:/retry: fields, several events, JSON split over several data: lines, unterminated last event} x transport exception {ConnectError, ReadTimeout, RemoteProtocolError, asyncio.TimeoutError} x "
    "Mcp-Session-Id {absent, S1, changed}; the single-behaviour matrix is enumerated exhaustively, sequences are Hypothesis-drawn; after every POST the virtual loop runs to quiescence and the read stream is drained; "
    "oracle: reference SSE parser / JSON body reference -> expected messages in order, else exactly one terminal response with the request's id (type-strict), nothing with an id for a notification, probe answered, "
    "every POST after a 2xx answer carrying a session id uses the most recent one; non-trivial = behaviour other than plain 200+JSON result, or a failure followed by a success, or a non-default SSE encoding; distinct = distinct sequence"
    "; added in rounds 6-7 of the seeded changes: damaged-JSON events between real ones; messages after the response in the same body"
)
ASSUMPTIONS = [
    "real httpx client over MockTransport: request building, redirects and body decoding are real, sockets are not",
    "MCP results are JSON objects (array/scalar results are outside the domain)",
    "an SSE body that carries messages but none with the request's id yields those messages and no synthesised terminal is demanded (only a body with no extractable message counts as empty/malformed)",
    "an SSE event not terminated by a blank line may or may not be delivered (the WHATWG algorithm discards it)",
]
EXHAUSTIVE = {"quick": True, "thorough": True}
META = {
    "text": "Fault enumeration over the per-request server-behaviour matrix (exhaustive) and generated fault sequences, against a WHATWG-conformant reference SSE parser and a JSON-body reference; delivery is attributed per request by draining the read stream at quiescence on a virtual clock.",
    "technique": "fault-sequence enumeration + Hypothesis over SSE encodings; oracle = reference SSE parser / JSON-RPC grammar; real httpx over MockTransport",
}

URL = "http://test.invalid/mcp"
EXC = {
    "connect": lambda req: httpx.ConnectError("connection refused", request=req),
    "read_timeout": lambda req: httpx.ReadTimeout("read timed out", request=req),
    "protocol": lambda req: httpx.RemoteProtocolError("peer closed connection without sending complete message body", request=req),
    "asyncio_timeout": lambda req: asyncio.TimeoutError(),
}
CTYPES = {"json": "application/json", "json-charset": "application/json; charset=utf-8", "sse": "text/event-stream", "sse-charset": "text/event-stream; charset=utf-8",
          "text": "text/plain", "absent": None}


def build_body(body: Dict[str, Any], req_wire: Dict[str, Any], is_sse: bool) -> Tuple[bytes, List[Any], bool]:
    """(bytes, messages the server put in, flush_tail_possible)"""
    rid = req_wire.get("id", "none")
    kind = body["kind"]
    payload = body.get("payload", {"ok": True, "t": "é\U0001F600"})
    if body.get("sse", {}).get("line_seps"):
        # characters that some "split into lines" routines treat as line ends, raw inside JSON strings (legal JSON, and
        # no line terminators of the event-stream format)
        payload = dict(payload, ls="a\u2028b\u2029c\u0085d\x0bf\x0cg\x1ch")
    msgs: List[Any]
    if kind == "result":
        msgs = [{"jsonrpc": "2.0", "id": rid, "result": payload}]
    elif kind == "error":
        msgs = [{"jsonrpc": "2.0", "id": rid, "error": {"code": body.get("code", -32001), "message": "srv"}}]
    elif kind == "wrong_id":
        msgs = [{"jsonrpc": "2.0", "id": "someone-else", "result": payload}]
    elif kind in ("notifs+response", "batch"):
        n = body.get("n", 2)
        msgs = [{"jsonrpc": "2.0", "method": "notifications/message", "params": {"level": "info", "data": i}} for i in range(n)]
        msgs.append({"jsonrpc": "2.0", "id": rid, "result": payload})
        # ... and what the server still had to say after the response, in the same body (late log / progress messages,
        # a list_changed notification, a request of its own)
        for i in range(body.get("after", 0)):
            msgs.append({"jsonrpc": "2.0", "method": "notifications/message", "params": {"level": "info", "data": 100 + i}} if i % 3 != 2 else {"jsonrpc": "2.0", "id": f"srv-{i}", "method": "ping"})
    else:
        msgs = []
    if kind in ("nonutf8-latin1", "nonutf8-overlong") and ("id" not in req_wire or (isinstance(rid, str) and not rid.isascii())):
        kind = "nonutf8"  # only for requests whose id survives the wrong encoding: the payload text carries the bad bytes
    if kind in ("nonutf8-latin1", "nonutf8-overlong"):
        # a well-formed response whose bytes are not UTF-8 (a server writing Latin-1, an overlong encoding)
        good = json.dumps({"jsonrpc": "2.0", "id": rid, "result": {"t": "caf\u00e9"}}, ensure_ascii=False)
        data = good.encode("latin-1") if kind == "nonutf8-latin1" else good.encode("utf-8").replace("\u00e9".encode("utf-8"), b"\xc0\xaf")
        if is_sse:
            return b"event: message\ndata: " + data + b"\n\n", [], False
        return data, [], False
    raw = {"empty": b"", "truncated": b'{"jsonrpc":"2.0","id":1,"resu', "nonjson": b"<html>oops</html>", "nonutf8": b"\xff\xfe\x00{",
           "scalar": b"5", "emptyobj": b"{}"}
    if kind in raw:
        if is_sse and kind in ("truncated", "nonjson", "scalar", "emptyobj"):
            enc = body.get("sse", {})
            return encode_event(raw[kind].decode(), **_enc(enc)).encode(), [], False
        return raw[kind], [], False
    if is_sse:
        enc = body.get("sse", {})
        text = ""
        blocks: List[List[Any]] = enc.get("blocks", [])  # [position, kind]: blocks that carry no message, between the events
        for i_, m in enumerate(msgs):
            text += "".join(noise_block(k_, enc) for p_, k_ in blocks if p_ == i_)
            data = json.dumps(m, ensure_ascii=enc.get("ensure_ascii", True), indent=2 if enc.get("split_data") else None)
            text += encode_event(data, **_enc(enc))
        text += "".join(noise_block(k_, enc) for p_, k_ in blocks if p_ >= len(msgs))
        if enc.get("noise"):
            text = encode_event("tick", event="ping", eol=enc.get("eol", "\n")) + text
        unterminated = False
        if enc.get("unterminated") and text.endswith(enc.get("eol", "\n") * 2):
            text = text[: -len(enc.get("eol", "\n"))]
            unterminated = True
        return text.encode("utf-8"), msgs, unterminated
    if kind == "batch" or len(msgs) > 1:
        return json.dumps(msgs).encode(), msgs, False
    return json.dumps(msgs[0], ensure_ascii=body.get("ensure_ascii", True)).encode(), msgs, False


NOISE_KINDS = ["ping-data", "typed-nodata", "comment", "id-only", "retry-only", "blank", "empty-data", "unknown-field", "message-nodata", "typed-then-comment",
               "damaged-json", "damaged-json-typed", "json-not-a-message", "damaged-array"]


def noise_block(kind: str, enc: Dict[str, Any]) -> str:
    """an event-stream block that carries no JSON-RPC message (WHATWG: a block without data dispatches nothing and
    a blank line always resets the pending event type)"""
    eol = enc.get("eol", "\n")
    sp = " " if enc.get("space", True) else ""
    return {
        "ping-data": f"event:{sp}ping{eol}data:{sp}tick{eol}{eol}",
        "typed-nodata": f"event:{sp}ping{eol}{eol}",
        "comment": f": hello{eol}{eol}",
        "id-only": f"id:{sp}7{eol}{eol}",
        "retry-only": f"retry:{sp}100{eol}{eol}",
        "blank": eol,
        "empty-data": f"data:{eol}{eol}",
        "unknown-field": f"foo:{sp}bar{eol}{eol}",
        "message-nodata": f"event:{sp}message{eol}{eol}",
        "typed-then-comment": f"event:{sp}endpoint{eol}: c{eol}{eol}",
        # events whose data is not a JSON-RPC message (a server bug, a proxy that cut an event short): they carry nothing
        # for the application and take nothing away from the events around them
        "damaged-json": f'data:{sp}{{"jsonrpc":"2.0","id":{eol}{eol}',
        "damaged-json-typed": f"event:{sp}message{eol}data:{sp}{{oops}}{eol}{eol}",
        "json-not-a-message": f'data:{sp}{{"status":"ok"}}{eol}{eol}',
        "damaged-array": f"data:{sp}[1,{eol}{eol}",
    }[kind]


def _enc(enc: Dict[str, Any]) -> Dict[str, Any]:
    return {"event": enc.get("event", "message"), "space": enc.get("space", True), "eol": enc.get("eol", "\n"), "comment": enc.get("comment", False),
            "id_field": enc.get("id_field"), "retry": enc.get("retry"), "split_data": enc.get("split_data", False), "event_after_data": enc.get("event_after_data", False)}


def _out_msg(m: Dict[str, Any]) -> Dict[str, Any]:
    if m["kind"] == "request":
        return {"jsonrpc": "2.0", "id": m["id"], "method": m.get("method", "tools/list"), "params": {}}
    return {"jsonrpc": "2.0", "method": m.get("method", "notifications/initialized"), "params": {}}


def check(case: Dict[str, Any]) -> Outcome:
    from chuk_mcp.protocol.messages.json_rpc_message import parse_message
    from chuk_mcp.transports.http.http_client import http_client
    from chuk_mcp.transports.http.parameters import StreamableHTTPParameters

    if "fuzz" in case:
        from ..fuzz.job import check_fuzz_case

        return check_fuzz_case(case)
    if case.get("loop"):
        return check_loopback(case)
    if "burst" in case:
        return check_burst(case)
    out = Outcome()
    steps: List[Dict[str, Any]] = list(case["steps"])
    probe = {"msg": {"kind": "request", "id": "probe-id"}, "beh": {"status": 200, "ctype": "json", "body": {"kind": "result"}}}
    all_steps = steps + [probe]
    seen: List[Dict[str, Any]] = []  # per HTTP request: headers, step index
    state = {"step": -1, "redirected": False}
    built: Dict[int, Tuple[bytes, List[Any], bool]] = {}

    async def handler(request: httpx.Request) -> httpx.Response:
        i = state["step"]
        beh = all_steps[i]["beh"]
        seen.append({"step": i, "method": request.method, "url": str(request.url), "session": request.headers.get("mcp-session-id"), "accept": request.headers.get("accept")})
        if request.url.path.endswith("/moved"):
            # target of a redirect: answer a POST with the scripted body, anything else with 405
            if request.method != "POST":
                return httpx.Response(405, text="method not allowed")
            beh = dict(beh, status=200)
        elif beh.get("exc"):
            raise EXC[beh["exc"]](request)
        elif beh["status"] in (301, 302, 307) and beh.get("location", True):
            return httpx.Response(beh["status"], headers={"location": URL + "/moved"})
        ct = CTYPES[beh.get("ctype", "json")]
        body, _, _ = built[i]
        headers = {}
        if ct:
            headers["content-type"] = ct
        if beh.get("session") and 200 <= beh["status"] < 300:
            headers["mcp-session-id"] = beh["session"]
        return httpx.Response(beh["status"], headers=headers, content=body)

    delivered: List[List[Any]] = []

    async def main():
        with install("http", handler):
            pk: Dict[str, Any] = {}
            if case.get("init_session"):
                pk["session_id"] = case["init_session"]  # reconnecting to an existing session
            if case.get("cfg_headers"):
                pk["headers"] = dict(case["cfg_headers"])
            async with http_client(StreamableHTTPParameters(url=URL, timeout=5.0, **pk)) as (r, w):
                for i, st_ in enumerate(all_steps):
                    wire = _out_msg(st_["msg"])
                    is_sse = st_["beh"].get("ctype", "json").startswith("sse")
                    built[i] = build_body(st_["beh"].get("body", {"kind": "empty"}), wire, is_sse)
                    state["step"] = i
                    await w.send(parse_message(wire))
                    await asyncio.sleep(0.3)
                    got = []
                    while True:
                        try:
                            got.append(r.receive_nowait())
                        except (anyio.WouldBlock, anyio.EndOfStream, anyio.ClosedResourceError):
                            break
                    delivered.append([g.model_dump(exclude_none=True) if hasattr(g, "model_dump") else g for g in got])

    try:
        run_virtual(main)
    except Exception as e:  # noqa
        out.fail("http-client-raised", f"{type(e).__name__}: {e}")
        return out

    # ---------------------------------------------------------------- classification
    def plain(s: Dict[str, Any]) -> bool:
        b = s["beh"]
        return b["status"] == 200 and b.get("ctype", "json") == "json" and b.get("body", {}).get("kind") == "result" and not b.get("exc")

    nontriv = any(not plain(s) for s in steps)
    out.nontrivial = nontriv
    cl = set()
    for s in steps:
        b = s["beh"]
        cl.add("exc" if b.get("exc") else f"status:{b['status'] // 100}xx")
        cl.add("ctype:" + b.get("ctype", "json").split("-")[0])
        cl.add("msg:" + s["msg"]["kind"])
    out.classes = tuple(sorted(cl)) + (f"steps:{len(steps)}",)

    # ---------------------------------------------------------------- per-step oracle
    for i, st_ in enumerate(all_steps):
        if i >= len(delivered):
            out.fail("later-request-not-processed", f"step {i} never ran")
            return out
        got = delivered[i]
        beh = st_["beh"]
        m = st_["msg"]
        is_req = m["kind"] == "request"
        rid = m.get("id")
        body, put_in, unterminated = built[i]
        final_status = beh["status"]
        redirected = beh["status"] in (301, 302, 307) and beh.get("location", True) and not beh.get("exc")
        if redirected:
            final_status = 200 if beh["status"] == 307 else 405
        ct = beh.get("ctype", "json")
        expected: Optional[List[Any]] = None  # None => synthesised terminal expected
        alt: List[List[Any]] = []
        if beh.get("exc") or final_status >= 400:
            expected = None
        else:
            try:
                text = body.decode("utf-8")
            except UnicodeDecodeError:
                text = None
            if text is None:
                expected = None
            elif ct.startswith("sse") or (ct in ("text", "absent") and text.lstrip().startswith(("event:", "data:", ":", "id:", "retry:"))):
                msgs = jsonrpc_messages(text, classify)
                flushed = jsonrpc_messages(text, classify, flush_tail=True)
                expected = msgs if msgs else None
                if flushed != msgs:
                    alt.append(flushed)
                    if not msgs:
                        expected = flushed  # unterminated single event: either delivered or a terminal
                        alt.append([])
            else:
                try:
                    v = json.loads(text)
                except Exception:
                    v = "$unparsable"
                if isinstance(v, dict) and classify(v)[0] is not None:
                    expected = [v]
                elif isinstance(v, list) and v and all(isinstance(x, dict) and classify(x)[0] is not None for x in v):
                    expected = list(v)
                else:
                    expected = None
        label = _label(beh, m)

        def same(a: List[Any], b: List[Any]) -> bool:
            return len(a) == len(b) and all(strict_eq(x, y) for x, y in zip(a, b))

        if expected is not None and (same(got, expected) or any(same(got, a) for a in alt if a)):
            continue
        if expected is not None and not any(a == [] for a in alt):
            # server messages lost / altered / invented
            if len(got) <= len(expected) and label.startswith("sse:") and label != "sse:plain":
                sig = "sse-body-in-conformant-encoding-not-understood"
            elif len(got) <= len(expected) and label == "json-array-body":
                sig = "json-array-body-lost"
            elif len(got) < len(expected):
                sig = "server-message-lost:" + label
            elif len(got) > len(expected):
                sig = "message-invented:" + label
            else:
                sig = "server-message-altered:" + label
            out.fail(sig, f"step {i}: got {json.dumps(got)[:300]} want {json.dumps(expected)[:300]} body={body[:200]!r}")
            return out
        # synthesised terminal expected
        if is_req:
            ok = len(got) == 1 and classify(got[0])[0] in ("result", "error") and strict_eq(got[0].get("id"), rid)
            if not ok:
                no_msg_body = final_status < 400 and not beh.get("exc")
                if no_msg_body and (not got or classify(got[0])[0] not in ("result", "error")):
                    sig = "no-terminal-message-when-body-carries-no-message"
                elif not got:
                    sig = "no-terminal-message-for-request:" + label
                elif len(got) > 1:
                    sig = "more-than-one-terminal-message:" + label
                elif classify(got[0])[0] not in ("result", "error"):
                    sig = "terminal-message-not-a-response:" + label
                else:
                    sig = "synthesised-terminal-id-differs:" + label
                out.fail(sig, f"step {i}: request id {rid!r}; got {json.dumps(got)[:300]} body={body[:120]!r}")
                return out
        else:
            with_id = [g for g in got if isinstance(g, dict) and g.get("id") is not None]
            if with_id:
                out.fail("message-with-id-for-notification:" + label, f"step {i}: {json.dumps(got)[:300]}")
                return out

    # ---------------------------------------------------------------- session header
    current: Optional[str] = case.get("init_session") or None
    for i, st_ in enumerate(all_steps):
        reqs = [s for s in seen if s["step"] == i]
        for rq in reqs:
            if current is not None and rq["session"] != current:
                out.fail("session-id-not-the-most-recent", f"step {i}: sent {rq['session']!r}, most recent issued {current!r}")
                return out
            if current is None and rq["session"] is not None:
                out.fail("session-id-invented", f"step {i}: sent {rq['session']!r}")
                return out
            if rq["method"] == "POST" and (rq["accept"] is None or "application/json" not in rq["accept"] or "text/event-stream" not in rq["accept"]):
                out.fail("accept-header-missing-a-type", f"{rq['accept']!r}")
                return out
        beh = st_["beh"]
        fstatus = beh["status"]
        if beh["status"] in (301, 302, 307) and beh.get("location", True):
            fstatus = 200 if beh["status"] == 307 else 405  # httpx re-POSTs only on 307
        if beh.get("session") and not beh.get("exc") and 200 <= fstatus < 300:
            current = beh["session"]
        if not reqs:
            out.fail("request-never-posted", f"step {i}")
            return out
    return out


def _label(beh: Dict[str, Any], m: Dict[str, Any]) -> str:
    if beh.get("exc"):
        return "exception"
    b = beh.get("body", {})
    ct = beh.get("ctype", "json")
    if beh["status"] >= 400:
        return "error-status"
    if ct.startswith("sse"):
        enc = b.get("sse", {})
        quirks = []
        if enc.get("event", "message") is None:
            quirks.append("no-event-field")
        if enc.get("space", True) is False:
            quirks.append("no-space-after-colon")
        if enc.get("split_data"):
            quirks.append("multi-line-data")
        if enc.get("event_after_data"):
            quirks.append("event-after-data")
        if b.get("kind") in ("empty", "truncated", "nonjson", "scalar", "emptyobj", "nonutf8", "nonutf8-latin1", "nonutf8-overlong"):
            quirks.append("no-message-in-body")
        return "sse:" + ("+".join(quirks) if quirks else "plain")
    if b.get("kind") == "batch" or b.get("kind") == "notifs+response":
        return "json-array-body"
    if b.get("kind") in ("scalar", "emptyobj"):
        return "json-body-not-a-message"
    return f"{ct}:{b.get('kind')}:{beh['status']}"


# --------------------------------------------------------------------------------------- generators

STATUSES = [200, 202, 204, 301, 302, 307, 400, 401, 404, 429, 500, 503]
BODY_KINDS = ["result", "error", "batch", "notifs+response", "wrong_id", "empty", "truncated", "nonjson", "nonutf8", "nonutf8-latin1", "nonutf8-overlong", "scalar", "emptyobj"]
SSE_ENCODINGS: List[Dict[str, Any]] = [
    {}, {"event": None}, {"space": False}, {"eol": "\r\n"}, {"comment": True}, {"id_field": "7", "retry": 1000}, {"split_data": True}, {"event_after_data": True},
    {"event": None, "space": False, "eol": "\r\n"}, {"noise": True}, {"unterminated": True}, {"ensure_ascii": False},
] + [{"event": ev, "blocks": [[pos, k]]} for k in NOISE_KINDS for pos in (0, 9) for ev in (None, "message")] + [
    {"ensure_ascii": False, "line_seps": True}, {"ensure_ascii": False, "line_seps": True, "eol": "\r\n"}, {"ensure_ascii": False, "line_seps": True, "event": None, "space": False}]


def job_matrix(col: Collector, seed: int, tier: str, shard: int, nshards: int) -> None:
    i = 0
    for status in STATUSES:
        for ct in CTYPES:
            for bk in BODY_KINDS:
                encs = SSE_ENCODINGS if ct.startswith("sse") else [{}]
                for enc in encs:
                    for mk in ("request-str", "request-int", "notification"):
                        i += 1
                        if i % nshards != shard:
                            continue
                        msg = {"kind": "notification"} if mk == "notification" else {"kind": "request", "id": "r-1" if mk == "request-str" else 7}
                        body: Dict[str, Any] = {"kind": bk}
                        if bk in ("batch", "notifs+response") and i % 2:
                            body["after"] = 1 + i % 3  # the server goes on talking after the response
                        if enc:
                            body["sse"] = enc
                        beh = {"status": status, "ctype": ct, "body": body, "session": "S1" if i % 3 == 0 else None}
                        case = {"steps": [{"msg": msg, "beh": beh}]}
                        col.record(case, check(case))
    for exc in EXC:
        for mk in ("request-str", "request-int", "notification"):
            i += 1
            if i % nshards != shard:
                continue
            msg = {"kind": "notification"} if mk == "notification" else {"kind": "request", "id": "r-1" if mk == "request-str" else 7}
            case = {"steps": [{"msg": msg, "beh": {"status": 200, "exc": exc}}]}
            col.record(case, check(case))
    if shard == 0:
        col.exhaustive_parts.append(f"single-behaviour matrix: {len(STATUSES)} statuses x {len(CTYPES)} content types x {len(BODY_KINDS)} bodies (x {len(SSE_ENCODINGS)} SSE encodings for event-stream) x 3 message kinds, + {len(EXC)} transport exceptions x 3")


@st.composite
def behaviour(draw):
    if draw(st.integers(0, 7)) == 0:
        return {"status": 200, "exc": draw(st.sampled_from(sorted(EXC)))}
    status = draw(st.sampled_from([200, 200, 200, 202] + STATUSES))
    ct = draw(st.sampled_from(["json", "json", "sse", "sse", "json-charset", "sse-charset", "text", "absent"]))
    body: Dict[str, Any] = {"kind": draw(st.sampled_from(BODY_KINDS + ["result", "result", "notifs+response"]))}
    if body["kind"] in ("notifs+response", "batch"):
        body["n"] = draw(st.integers(0, 3))
        if draw(st.booleans()):
            body["after"] = draw(st.integers(1, 3))
    if draw(st.booleans()):
        body["payload"] = draw(st.dictionaries(st.text(max_size=5), st.one_of(st.text(max_size=8), st.integers(-5, 2**53), st.none(), st.lists(st.text(max_size=3), max_size=2)), max_size=3))
    if ct.startswith("sse") or draw(st.integers(0, 5)) == 0:
        enc: Dict[str, Any] = {}
        if draw(st.booleans()):
            enc["event"] = draw(st.sampled_from([None, "message"]))
        for k in ("comment", "split_data", "event_after_data", "noise", "unterminated"):
            if draw(st.integers(0, 3)) == 0:
                enc[k] = True
        if draw(st.integers(0, 2)) == 0:
            enc["space"] = False
        if draw(st.integers(0, 2)) == 0:
            enc["eol"] = "\r\n"
        if draw(st.integers(0, 3)) == 0:
            enc["id_field"] = draw(st.sampled_from(["1", "evt-9", ""]))
        if draw(st.integers(0, 3)) == 0:
            enc["ensure_ascii"] = False
            if draw(st.booleans()):
                enc["line_seps"] = True
        if draw(st.integers(0, 2)) == 0:
            enc["blocks"] = draw(st.lists(st.tuples(st.integers(0, 4), st.sampled_from(NOISE_KINDS)).map(list), min_size=1, max_size=3))
        body["sse"] = enc
    beh: Dict[str, Any] = {"status": status, "ctype": ct, "body": body}
    if status in (301, 302, 307):
        beh["location"] = draw(st.booleans())
    s = draw(st.sampled_from([None, None, "S1", "S2", "s-é"[:2]]))
    if s:
        beh["session"] = s
    return beh


@st.composite
def cases(draw):
    n = draw(st.integers(1, 4))
    steps = []
    for k in range(n):
        mk = draw(st.sampled_from(["request-str", "request-int", "notification"]))
        if mk == "notification":
            msg: Dict[str, Any] = {"kind": "notification"}
        else:
            msg = {"kind": "request", "id": draw(st.sampled_from([f"r-{k}", "123", "a b", "é"])) if mk == "request-str" else draw(st.sampled_from([k + 1, 0, 2**53 + 1, -5]))}
        steps.append({"msg": msg, "beh": draw(behaviour())})
    case: Dict[str, Any] = {"steps": steps}
    if draw(st.integers(0, 3)) == 0:
        case["init_session"] = draw(st.sampled_from(["cfg-0", "S1", "s e"]))
    if draw(st.integers(0, 3)) == 0:
        case["cfg_headers"] = draw(st.sampled_from([{"X-Trace": "t1"}, {"Authorization": "Bearer x"}, {"X-A": "1", "X-B": "2"}]))
    return case


def job_hyp(col: Collector, seed: int, tier: str, shard: int, n: int) -> None:
    hyp_run(col, seed * 1000 + shard, cases(), check, n)


def check_burst(case: Dict[str, Any]) -> Outcome:
    """several requests written back to back (nobody waits for an answer before sending the next one), the server
    taking a generated time over each: however the transport schedules its POSTs, every request must end up with
    exactly one terminal message, and with the server's own answer when there was one."""
    from chuk_mcp.protocol.messages.json_rpc_message import parse_message
    from chuk_mcp.transports.http.http_client import http_client
    from chuk_mcp.transports.http.parameters import StreamableHTTPParameters

    out = Outcome()
    steps: List[Dict[str, Any]] = case["burst"]
    got: List[Any] = []
    built: Dict[int, Tuple[bytes, List[Any], bool]] = {}
    wires = []
    for i, st_ in enumerate(steps):
        w_ = {"jsonrpc": "2.0", "id": f"b{i}", "method": "tools/list", "params": {"step": i}}
        wires.append(w_)
        built[i] = build_body(st_["beh"].get("body", {"kind": "result"}), w_, st_["beh"].get("ctype", "json").startswith("sse"))

    async def handler(request: httpx.Request) -> httpx.Response:
        try:
            i = json.loads(request.content)["params"]["step"]
        except Exception:
            return httpx.Response(400)
        beh = steps[i]["beh"]
        if beh.get("delay"):
            await asyncio.sleep(beh["delay"] / 100.0)
        if beh.get("exc"):
            raise EXC[beh["exc"]](request)
        ct = CTYPES[beh.get("ctype", "json")]
        return httpx.Response(beh["status"], headers={"content-type": ct} if ct else {}, content=built[i][0])

    async def main():
        with install("http", handler):
            async with http_client(StreamableHTTPParameters(url=URL, timeout=5.0)) as (r, w):
                for w_ in wires:
                    await w.send(parse_message(w_))
                await asyncio.sleep(sum(s_["beh"].get("delay", 0) for s_ in steps) / 100.0 + 1.0)
                while True:
                    try:
                        m = r.receive_nowait()
                    except (anyio.WouldBlock, anyio.EndOfStream, anyio.ClosedResourceError):
                        break
                    got.append(m.model_dump(exclude_none=True) if hasattr(m, "model_dump") else m)

    try:
        run_virtual(main)
    except Exception as e:  # noqa
        out.fail("http-client-raised", f"{type(e).__name__}: {e}")
        return out
    out.nontrivial = len(steps) > 1
    out.classes = ("burst", f"steps:{len(steps)}", "delays-reversed" if [s_["beh"].get("delay", 0) for s_ in steps] != sorted(s_["beh"].get("delay", 0) for s_ in steps) else "delays-in-order")
    for i, st_ in enumerate(steps):
        mine = [g for g in got if isinstance(g, dict) and "method" not in g and g.get("id") == f"b{i}"]
        beh = st_["beh"]
        label = beh.get("exc") or f"{beh['status']}:{beh.get('ctype', 'json')}:{beh.get('body', {}).get('kind', 'result')}"
        if len(mine) != 1 or classify(mine[0])[0] not in ("result", "error"):
            sig = "burst:no-terminal-message-for-request" if not mine else ("burst:more-than-one-terminal-message" if len(mine) > 1 else "burst:terminal-message-invalid")
            out.fail(sig, f"request b{i} ({label}, server took {beh.get('delay', 0) / 100.0}s) among {len(steps)} written back to back: {json.dumps(mine)[:200]}; all delivered ids {[g.get('id') for g in got if isinstance(g, dict)]}")
            return out
        answers = [m for m in built[i][1] if isinstance(m, dict) and m.get("id") == f"b{i}"]
        if answers and beh["status"] == 200 and not beh.get("exc") and beh.get("ctype", "json") in ("json", "sse") and not strict_eq(mine[0], answers[0]):
            out.fail("burst:server-answer-replaced", f"request b{i}: got {json.dumps(mine[0])[:200]} want {json.dumps(answers[0])[:200]}")
            return out
    return out


def check_loopback(case: Dict[str, Any]) -> Outcome:
    """One request per case against a real loopback HTTP server; the body is sent with chunked transfer
    encoding in the generated TCP segments (incl. cuts inside UTF-8 characters and CRLF)."""
    from chuk_mcp.protocol.messages.json_rpc_message import parse_message
    from chuk_mcp.transports.http.http_client import http_client
    from chuk_mcp.transports.http.parameters import StreamableHTTPParameters

    from ..loopback import RawHTTPServer, Reply

    out = Outcome()
    beh = case["beh"]
    msg = case["msg"]
    wire = _out_msg(msg)
    is_sse = beh.get("ctype", "json").startswith("sse")
    body, put_in, _unterminated = build_body(beh.get("body", {"kind": "result"}), wire, is_sse)
    if beh["status"] in (204, 304):
        body = b""  # HTTP: these statuses carry no body; a real client never reads one (the mock transport can, a socket cannot)
    cuts = sorted(set(c % max(1, len(body)) for c in case.get("cuts", []) if len(body) > 1))
    pos = [0] + [c for c in cuts if c] + [len(body)]
    segs = [body[a:b] for a, b in zip(pos, pos[1:]) if b > a]
    got: List[Any] = []

    async def main():
        async def handler(method, path, headers, reqbody):
            try:
                w = json.loads(reqbody)
            except Exception:
                w = {}
            if isinstance(w, dict) and w.get("id") == "probe-id":
                return Reply(200, {"content-type": "application/json"}, json.dumps({"jsonrpc": "2.0", "id": "probe-id", "result": {}}).encode())
            hdrs = {}
            if CTYPES[beh.get("ctype", "json")]:
                hdrs["content-type"] = CTYPES[beh.get("ctype", "json")]
            return Reply(beh["status"], hdrs, segments=segs if segs else None, body=b"")

        async with RawHTTPServer(handler) as server:
            async with http_client(StreamableHTTPParameters(url=server.url + "/mcp", timeout=5.0)) as (r, w):
                await w.send(parse_message(wire))
                await w.send(parse_message({"jsonrpc": "2.0", "id": "probe-id", "method": "ping"}))
                with anyio.move_on_after(5):
                    async for m in r:
                        v = m.model_dump(exclude_none=True) if hasattr(m, "model_dump") else m
                        if isinstance(v, dict) and v.get("id") == "probe-id":
                            break
                        got.append(v)

    try:
        asyncio.run(main())
    except Exception as e:  # noqa
        out.fail("loopback:http-client-raised", f"{type(e).__name__}: {e}")
        return out
    out.nontrivial = bool(cuts) or is_sse
    out.classes = ("loopback", "ctype:" + beh.get("ctype", "json"), "chunked" if cuts else "unchunked")
    try:
        text = body.decode("utf-8")
    except UnicodeDecodeError:
        text = None
    expected: Optional[List[Any]]
    if beh["status"] >= 400 or text is None:
        expected = None
    elif is_sse:
        expected = jsonrpc_messages(text, classify) or None
        flushed = jsonrpc_messages(text, classify, flush_tail=True)
        if flushed and len(got) == len(flushed) and all(strict_eq(a, b) for a, b in zip(got, flushed)):
            return out  # an event not terminated by a blank line may or may not be delivered
        if expected is None and flushed and msg["kind"] == "request" and len(got) == 1 and classify(got[0])[0] == "error":
            return out
    else:
        try:
            v = json.loads(text)
        except Exception:
            v = None
        expected = [v] if isinstance(v, dict) and classify(v)[0] else (list(v) if isinstance(v, list) and v and all(isinstance(x, dict) and classify(x)[0] for x in v) else None)
    if expected is not None:
        if len(got) != len(expected) or not all(strict_eq(a, b) for a, b in zip(got, expected)):
            out.fail("loopback:delivered-messages-differ-from-body", f"cuts={cuts} got {json.dumps(got)[:300]} want {json.dumps(expected)[:300]}")
    elif msg["kind"] == "request":
        if not (len(got) == 1 and classify(got[0])[0] in ("result", "error") and strict_eq(got[0].get("id"), msg["id"])):
            out.fail("loopback:no-single-terminal-message", f"got {json.dumps(got)[:300]} body={body[:100]!r}")
    return out


@st.composite
def loopback_cases(draw):
    mk = draw(st.sampled_from(["request-str", "request-int", "notification"]))
    msg: Dict[str, Any] = {"kind": "notification"} if mk == "notification" else {"kind": "request", "id": "r-1" if mk == "request-str" else 7}
    beh = draw(behaviour())
    beh.pop("exc", None)
    beh.setdefault("ctype", "json")
    beh.setdefault("body", {"kind": "result"})
    if beh["status"] in (301, 302, 307):
        beh["status"] = 200
    if beh.get("body", {}).get("kind") == "empty":
        beh["body"] = {"kind": "result"}
    return {"loop": True, "msg": msg, "beh": beh, "cuts": draw(st.lists(st.integers(1, 400), max_size=6))}


def job_loopback(col: Collector, seed: int, tier: str, shard: int, n: int) -> None:
    hyp_run(col, seed * 1000 + 800 + shard, loopback_cases(), check, n)


def job_atheris(col: Collector, seed: int, tier: str, seconds: int, corpus: str) -> None:
    from ..fuzz.job import run_fuzz_job

    run_fuzz_job(col, "sse_text", seconds, seed, corpus)


BURST_BEHS: List[Dict[str, Any]] = [
    {"status": 200, "ctype": "json", "body": {"kind": "result"}},
    {"status": 200, "ctype": "sse", "body": {"kind": "result"}},
    {"status": 200, "ctype": "sse", "body": {"kind": "empty"}},
    {"status": 200, "ctype": "json", "body": {"kind": "empty"}},
    {"status": 200, "ctype": "sse", "body": {"kind": "notifs+response", "n": 2}},
    {"status": 200, "ctype": "sse", "body": {"kind": "notifs+response", "n": 1, "after": 3}},
    {"status": 200, "ctype": "json", "body": {"kind": "batch", "n": 0, "after": 2}},
    {"status": 500, "ctype": "text", "body": {"kind": "nonjson"}},
    {"status": 202, "ctype": "json", "body": {"kind": "empty"}},
    {"status": 200, "exc": "read_timeout"},
]


def job_burst(col: Collector, seed: int, tier: str) -> None:
    """all ordered pairs of 8 server behaviours x delays {(0.3, 0), (0, 0.3), (0.1, 0.1)} written back to back, plus triples in thorough"""
    behs = BURST_BEHS
    for a, b in itertools.product(range(len(behs)), repeat=2):
        for da, db in ((30, 0), (0, 30), (10, 10)):
            case = {"burst": [{"beh": dict(behs[a], delay=da)}, {"beh": dict(behs[b], delay=db)}]}
            col.record(case, check(case))
    if tier != "quick":
        for a, b, c in itertools.product(range(len(behs)), repeat=3):
            case = {"burst": [{"beh": dict(behs[a], delay=40)}, {"beh": dict(behs[b], delay=0)}, {"beh": dict(behs[c], delay=20)}]}
            col.record(case, check(case))
    col.exhaustive_parts.append("requests written back to back: all ordered pairs (thorough: triples) of 8 server behaviours with the earlier request answered later / earlier / together")


JOBS = {"burst": job_burst, "atheris": job_atheris, "matrix": job_matrix, "hyp": job_hyp, "loopback": job_loopback}


def jobs(tier: str):
    if tier == "quick":
        return [("matrix", {"shard": s, "nshards": 10}) for s in range(10)] + [("hyp", {"shard": s, "n": 130}) for s in range(6)] + [("burst", {})]
    return (
        [("matrix", {"shard": s, "nshards": 8}) for s in range(8)] + [("hyp", {"shard": s, "n": 2500}) for s in range(4)] + [("loopback", {"shard": s, "n": 60}) for s in range(4)] + [("burst", {})]
        + [("atheris", {"seconds": 150, "corpus": "seeded"}), ("atheris", {"seconds": 150, "corpus": "empty"})]
    )


def shrink(signature: str, seed: int):
    return hyp_shrink(seed * 1000, cases(), check, signature, 800)
