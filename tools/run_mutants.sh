#!/bin/bash
# Run every mutant under mutants/Cxx/*.diff against its own property's check (tier from $1, default quick)
# and print a table: mutant, property, exit code, signatures.  Mutants named OK_* must stay green.
tier=${1:-quick}
cd "$(dirname "$0")/.."
for d in mutants/C*/; do
  p=$(basename "$d")
  for m in "$d"*.diff; do
    [ -f "$m" ] || continue
    tools/mutant.sh "$m" "$tier" "$p" 2>/dev/null
  done
done
