"""C07 - an error response always surfaces as a classified exception carrying its code."""
from __future__ import annotations

from typing import Any, Dict, List, Optional

from hypothesis import strategies as st

from ..drive import drive
from ..helpers import BOOL_HELPERS, discover_helpers, synth_args
from ..jsongen import json_text, json_values
from ..logmode import debug_logging
from ..runner import Collector, Outcome, hyp_run, hyp_shrink

ID = "C07"
LEVEL = "exploration"
RULE = (
    "case = (request helper or send_message, integer error code, error shape: message text or absent, data absent or any JSON, delivered as the unified or the typed error class, "
    "alone or with a concurrent request on the same connection that dequeues the error first; send_message also with an untriggered cancellation token and/or a progress callback; arriving inside a poll window or exactly on a poll boundary at 4 intra-instant positions; data also drawn from a vocabulary of hint-like keys (retryable, permanent, ...)); "
    "codes enumerated exhaustively over -33100..-31900 and -200..200 for every discovered helper, plus Hypothesis-drawn signed/unsigned "
    "64-bit codes and error shapes; oracle = pinned documented permanent-code set; non-trivial = code is not one of the named constants, "
    "or data present, or message absent; distinct = distinct (helper, code, shape)"
    "; round 8: the same call answered with a result first and with the error the second time; a peer that reads nothing after answering (unbuffered write stream)"
    "; added in rounds 6-7 of the seeded changes: consecutive calls on one connection (all ordered pairs of named codes); own-token progress before the error with raising / stalling callbacks; logging at DEBUG"
)
ASSUMPTIONS = [
    "the documented permanent (non-retryable) set is pinned in this check from errors.py's documentation at the verified commit: "
    "-32700 -32600 -32601 -32602 -32000 -32003 -32005 -32006 -32007 -32008",
    "send_initialize may raise VersionMismatchError for -32602 whose text mentions 'protocol version' (documented)",
    "an error object without a message is only constructible directly (the parser rejects it); it is delivered as a directly built message object",
]
EXHAUSTIVE = {"quick": True, "thorough": True}
META = {
    "text": "Exhaustive enumeration of the stated integer ranges (1602 codes) through every discovered request helper on the virtual clock, plus seeded 64-bit codes and error shapes; decides classification/code/message propagation for those inputs, no claim beyond them.",
    "technique": "bounded-exhaustive enumeration + Hypothesis, oracle = pinned documented code set",
}

PERMANENT = frozenset([-32700, -32600, -32601, -32602, -32000, -32003, -32005, -32006, -32007, -32008])
NAMED = PERMANENT | frozenset([-32603, -32001, -32002, -32004])

_H: Optional[Dict[str, Any]] = None


def helpers() -> Dict[str, Any]:
    global _H
    if _H is None:
        _H = dict(discover_helpers())
    return _H


def check_reuse(case: Dict[str, Any]) -> Outcome:
    """an id is used again after an earlier request with that id was cancelled while a peer had its response in hand:
    the new request must get what the server sends for IT - here an error of the given code."""
    import asyncio

    from chuk_mcp.protocol.messages.send_message import CancellationToken, send_message
    from chuk_mcp.protocol.types.errors import NonRetryableError, RetryableError

    out = Outcome(nontrivial=True, classes=("id-reused-after-a-cancelled-request",))
    code = case["code"]
    first: Dict[str, Any] = {}

    async def call(r, w):
        token = CancellationToken()

        async def b():
            try:
                first["b"] = ("return", await send_message(r, w, "b/req", None, timeout=2.0, message_id="X", cancellation_token=token))
            except BaseException as e:  # noqa
                first["b"] = ("raise", type(e).__name__)
                if isinstance(e, asyncio.CancelledError):
                    raise

        async def a():
            await asyncio.sleep(0.05)
            try:
                first["a"] = ("return", await send_message(r, w, "a/req", None, timeout=2.0, message_id="A"))
            except BaseException as e:  # noqa
                first["a"] = ("raise", type(e).__name__)
                if isinstance(e, asyncio.CancelledError):
                    raise

        async def cancel_later():
            await asyncio.sleep(case.get("t_cancel", 53) / 100.0)
            token.cancel()

        tb, ta, tc_ = asyncio.ensure_future(b()), asyncio.ensure_future(a()), asyncio.ensure_future(cancel_later())
        await asyncio.gather(tb, ta, tc_, return_exceptions=True)
        await asyncio.sleep(max(0.0, 1.2 - asyncio.get_running_loop().time()))
        return await send_message(r, w, "x/y", {"a": 1}, timeout=2.0, message_id="X")

    schedule = [
        (0.52, {"jsonrpc": "2.0", "id": "X", "result": {"stale": True}}),  # dequeued by the peer (the longer-waiting receiver)
        (0.60, {"jsonrpc": "2.0", "id": "A", "result": {"ok": "a"}}),
        (1.30, {"jsonrpc": "2.0", "id": "X", "error": {"code": code, "message": f"m{code}"}}),
    ]
    res = drive(call, schedule, max_vtime=10)
    if res.outcome == "return":
        out.fail("error-response-completed-normally", f"request reusing id 'X' returned {res.value!r} (earlier request with that id: {first.get('b')!r})")
        return out
    exc = res.exc
    if type(exc) not in (RetryableError, NonRetryableError) or getattr(exc, "code", None) != code:
        out.fail("error-response-raised-unclassified-exception", f"reused id: {type(exc).__name__}: {exc!r}; earlier: {first!r}")
    return out


def check_pair(case: Dict[str, Any]) -> Outcome:
    """two or three requests one after the other on ONE connection, each answered with its own error (code, message):
    every call must raise the classified exception of ITS answer - nothing learnt from an earlier answer may leak"""
    import asyncio

    from chuk_mcp.protocol.messages.json_rpc_message import parse_message
    from chuk_mcp.protocol.messages.send_message import send_message
    from chuk_mcp.protocol.types.errors import NonRetryableError, RetryableError

    out = Outcome(nontrivial=True, classes=("consecutive-calls-on-one-connection", f"calls:{len(case['pair'])}"))
    answers: List[Any] = case["pair"]  # code, or None for a successful answer
    results: List[Any] = []

    async def side(res_, rec_):
        n_ = {"k": 0}

        def on_send(item):
            w = item.model_dump(exclude_none=True) if hasattr(item, "model_dump") else item
            if isinstance(w, dict) and "method" in w and w.get("id") is not None:
                k = n_["k"]
                n_["k"] += 1
                code = answers[k] if k < len(answers) else None
                wire = {"jsonrpc": "2.0", "id": w["id"], "result": {"ok": k}} if code is None else {"jsonrpc": "2.0", "id": w["id"], "error": {"code": code, "message": f"answer {k} code {code}"}}
                asyncio.get_running_loop().call_later(0.02 if case.get("queued") else 0.07, res_.inject, parse_message(wire))

        rec_.on_send = on_send
        await asyncio.sleep(3600)

    async def call(r, w):
        for k in range(len(answers)):
            try:
                v = await send_message(r, w, "x/y", {"k": k}, timeout=2.0, message_id=(f"req-{k}" if case.get("own_ids") else None))
                results.append(("return", v))
            except Exception as e:  # noqa
                results.append(("raise", e))
        return None

    res = drive(call, [], side=side, max_vtime=30)
    if res.outcome != "return" or len(results) != len(answers):
        out.fail("consecutive-calls-did-not-finish", f"{res.outcome} {res.exc!r} {results!r}")
        return out
    for k, (code, (how, val)) in enumerate(zip(answers, results)):
        if code is None:
            if how != "return" or val != {"ok": k}:
                out.fail("successful-answer-after-an-error-not-returned", f"call {k} of {answers!r}: {how} {val!r}")
            continue
        want_cls = NonRetryableError if code in PERMANENT else RetryableError
        if how == "return":
            out.fail("error-response-completed-normally", f"call {k} of {answers!r}: returned {val!r}")
        elif type(val) not in (RetryableError, NonRetryableError):
            out.fail("error-response-raised-unclassified-exception", f"call {k} of {answers!r}: {type(val).__name__}: {val!r}")
        elif getattr(val, "code", None) != code or isinstance(getattr(val, "code", None), bool):
            out.fail("exception-carries-an-earlier-answers-code", f"call {k} of {answers!r}: raised code {getattr(val, 'code', None)!r}, its own answer said {code}")
        elif type(val) is not want_cls:
            out.fail("wrong-error-class", f"call {k} of {answers!r}: {type(val).__name__}")
        elif f"answer {k} code {code}" not in str(val):
            out.fail("exception-carries-an-earlier-answers-message", f"call {k} of {answers!r}: {str(val)!r}")
    return out


def check(case: Dict[str, Any]) -> Outcome:
    out = Outcome()
    if case.get("pair"):
        return check_pair(case)
    if case.get("static"):
        return check_static()
    if case.get("reuse"):
        return check_reuse(case)
    target = case["target"]
    code = case["code"]
    msg = case.get("message", "boom")
    has_data = "data" in case
    err: Dict[str, Any] = {"code": code}
    if msg is not None:
        err["message"] = msg
    if has_data:
        err["data"] = case["data"]

    from chuk_mcp.protocol.messages.json_rpc_message import JSONRPCMessage
    from chuk_mcp.protocol.messages.send_message import send_message
    from chuk_mcp.protocol.types.errors import NonRetryableError, RetryableError, VersionMismatchError, is_retryable_error

    opts = case.get("opts", [])
    if target == "send_message":
        async def call(r, w):
            kw: Dict[str, Any] = {}
            if "token" in opts:
                from chuk_mcp.protocol.messages.send_message import CancellationToken

                kw["cancellation_token"] = CancellationToken()  # present, never triggered
            if "progress" in opts or any(o.startswith("progress_") for o in opts):
                calls_ = {"n": 0}

                async def on_progress(progress, total, message):
                    calls_["n"] += 1
                    if "progress_raises" in opts or ("progress_raises_later" in opts and calls_["n"] > 1):
                        raise ValueError("the application's progress display failed")
                    if "progress_slow_later" in opts and calls_["n"] > 1:
                        import asyncio as _a

                        await _a.sleep(5.0)
                    return None

                kw["progress_callback"] = on_progress
            if "retries" in opts:
                kw["retries"] = 1
            return await send_message(r, w, "x/y", {"a": 1}, timeout=2.0, **kw)
    else:
        fn = helpers()[target]
        kwargs = synth_args(target, fn)

        async def call(r, w):
            return await fn(r, w, timeout=2.0, **kwargs)

    peer = bool(case.get("peer"))
    if peer:
        # a second request is in flight on the same connection and is the longer-waiting receiver when the
        # error arrives (t=0.52: the target re-queued at its 0.5 s poll), so it dequeues the target's error
        inner = call

        async def call(r, w):  # type: ignore[no-redef]
            import asyncio as _a

            async def other():
                await _a.sleep(0.05)
                try:
                    await send_message(r, w, "peer/req", None, timeout=1.5, message_id="peer-1")
                except BaseException:  # noqa
                    pass

            t_ = _a.ensure_future(other())
            try:
                return await inner(r, w)
            finally:
                t_.cancel()

    # when the error arrives: well inside a poll window, or exactly on a poll boundary (0.5 / 1.0 s) at a chosen
    # position among the events of that instant (see drive: before / after the timers the call armed)
    t_err = 0.52 if peer else case.get("t_err", 10) / 100.0
    phase = 0 if peer else case.get("phase", 0)
    if msg is None:
        # direct construction (the parser rejects an error without message): the code's own fallback path
        item: Any = {"$direct": err, "id": "$ID"}
    else:
        item = {"jsonrpc": "2.0", "id": "$ID", "error": err}
        if case.get("typed"):
            item["$form"] = "typed"
    sched: List[Any] = [(t_err, item, phase)]
    if case.get("progress_before") and target == "send_message" and not peer:
        # the server reported progress (the request's own token) shortly before it failed
        sched.insert(0, (max(0.01, t_err - 0.04), {"jsonrpc": "2.0", "method": "notifications/progress", "params": {"progressToken": "$TOKEN", "progress": 1, "total": 2, "message": "half"}}))
    dkw: Dict[str, Any] = {}
    staged = bool(case.get("after_success") or case.get("peer_stops_reading")) and not peer
    n_ok = 1 if case.get("after_success") else 0
    if staged:
        # after_success: the same call made twice on one connection, the first answered with a result, the second with the error;
        # peer_stops_reading: the peer answers with the error and reads nothing further (its input buffer may never drain)
        inner2 = call

        async def call(r, w):  # type: ignore[no-redef]
            for _ in range(n_ok):
                try:
                    await inner2(r, w)
                except Exception:  # noqa  (what the first call does with its result is not this case's subject)
                    pass
            return await inner2(r, w)

        async def side(res_, rec):
            import asyncio as _a

            from ..drive import to_message, wire_of
            from ..helpers import valid_result_for

            seen = 0
            for _ in range(4000):
                reqs_ = [wire_of(it) for _t, it in rec.items]
                reqs_ = [q for q in reqs_ if isinstance(q, dict) and "method" in q and q.get("id") is not None]
                if len(reqs_) > seen:
                    q = reqs_[seen]
                    seen += 1
                    await _a.sleep(t_err)
                    if seen <= n_ok:
                        res_.inject(to_message({"jsonrpc": "2.0", "id": q["id"], "result": valid_result_for(q["method"]) or {}}))
                    else:
                        if case.get("peer_stops_reading"):
                            rec.stop_reading()
                        res_.inject(to_message(dict(item, id=q["id"])))
                        return
                await _a.sleep(0.01)

        sched = []
        dkw["side"] = side
    if case.get("peer_stops_reading") and not peer:
        dkw.update(write_capacity=0, max_vtime=600.0)
    with debug_logging(bool(case.get("debug_log"))):  # (the application may run with logging.basicConfig(level=DEBUG))
        res = drive(call, sched, **dkw)
    if res.outcome == "hang":
        out.fail("call-never-finished-after-the-error-response", f"{target} code={code}: still pending at t={res.t_end}")
        return out

    out.nontrivial = (code not in NAMED) or has_data or msg is None
    out.key = {"target": target, "code": code, "message": msg, "data": case.get("data", "$absent")}
    out.classes = (
        "code:named" if code in NAMED else "code:unnamed",
        "permanent" if code in PERMANENT else "transient",
        "data" if has_data else "nodata",
        "nomessage" if msg is None else "message",
        "bool-helper" if target in BOOL_HELPERS else "raising-helper",
    ) + (("on-poll-boundary",) if not peer and case.get("t_err", 10) in (50, 100) else ()) + (("typed-class",) if case.get("typed") and msg is not None else ()) + (("peer-waiter",) if peer else ()) + tuple("opt:" + o for o in opts if target == "send_message") + (("progress-reported-before-the-error",) if case.get("progress_before") else ()) + (("logging:DEBUG",) if case.get("debug_log") else ()) + (("same-call-succeeded-before",) if n_ok and staged else ()) + (("peer-reads-nothing-after-answering",) if case.get("peer_stops_reading") and not peer else ())

    r = is_retryable_error(code)
    if not isinstance(r, bool):
        out.fail("is_retryable_error-not-bool", f"code={code} -> {r!r}")
    elif r != (code not in PERMANENT):
        out.fail("classification-differs-from-documented-set", f"code={code} is_retryable_error={r}")

    if peer and res.outcome == "raise" and isinstance(res.exc, TimeoutError):
        out.fail("error-response-lost-to-a-concurrent-request", f"{target} code={code} typed={bool(case.get('typed'))}: TimeoutError at t={res.t_end}")
        return out
    if target in BOOL_HELPERS:
        if peer and res.t_end > 1.9:
            out.fail("error-response-lost-to-a-concurrent-request", f"{target} code={code}: returned {res.value!r} only at t={res.t_end}")
        if not (res.outcome == "return" and res.value is False):
            out.fail("bool-helper-error-not-false", f"{target}: outcome={res.outcome} value={res.value!r} exc={res.exc!r}")
        return out

    if res.outcome == "return":
        out.fail("error-response-completed-normally", f"{target} code={code}: returned {res.value!r}")
        return out
    exc = res.exc
    if isinstance(exc, VersionMismatchError) and target.startswith("send_initialize") and code == -32602 and msg is not None and "protocol version" in msg.lower():
        return out
    if type(exc) not in (RetryableError, NonRetryableError):
        out.fail("error-response-raised-unclassified-exception", f"{target} code={code}: {type(exc).__name__}: {exc!r}")
        return out
    if not (isinstance(exc.code, int) and not isinstance(exc.code, bool) and exc.code == code):
        out.fail("exception-code-differs", f"{target} code={code}: exc.code={exc.code!r}")
    want_cls = NonRetryableError if code in PERMANENT else RetryableError
    if type(exc) is not want_cls:
        out.fail("wrong-error-class", f"{target} code={code}: raised {type(exc).__name__}, documented {want_cls.__name__}")
    if msg is not None and msg not in str(exc):
        out.fail("server-message-lost", f"{target} code={code}: message {msg!r} not in {str(exc)!r}")
    if not peer and not staged and abs(res.t_end - t_err) > 1e-6:
        out.fail("error-not-raised-on-arrival", f"t_end={res.t_end}")
    return out


def check_static() -> Outcome:
    out = Outcome(nontrivial=True, key="static-sets", classes=("static",))
    import chuk_mcp.protocol.types.errors as E

    non, ret = set(E.NON_RETRYABLE_ERRORS), set(E.RETRYABLE_ERRORS)
    if non & ret:
        out.fail("documented-sets-overlap", repr(sorted(non & ret)))
    if non != set(PERMANENT):
        out.fail("permanent-set-differs-from-documented", f"tree={sorted(non)} documented={sorted(PERMANENT)}")
    for name, val in vars(E).items():
        if name.isupper() and isinstance(val, int) and not isinstance(val, bool) and not name.endswith(("_START", "_END")):
            n = (val in non) + (val in ret)
            if n != 1:
                out.fail("named-code-not-in-exactly-one-set", f"{name}={val} in {n} sets")
            if E.is_retryable_error(val) != (val in ret):
                out.fail("named-code-classification-inconsistent", f"{name}={val}")
    return out


RANGES = list(range(-33100, -31899)) + list(range(-200, 201))


def job_enum(col: Collector, seed: int, tier: str, shard: int, nshards: int) -> None:
    targets = ["send_message"] + sorted(helpers())
    i = 0
    for target in targets:
        for code in RANGES:
            i += 1
            if i % nshards != shard:
                continue
            # rotate the three shapes over codes deterministically; named codes get all shapes
            shapes: List[Dict[str, Any]] = [{"message": f"m{code}"}]
            if code in NAMED or code % 7 == 0:
                shapes.append({"message": "Unsupported protocol version x", "data": {"k": [None, 1]}})
                shapes.append({"message": None})
            for sh in shapes:
                case = {"target": target, "code": code, **sh}
                col.record(case, check(case))
            if code in NAMED:
                for hint in ({"retryable": True}, {"retryable": False}, {"permanent": True}, {"transient": True}):
                    case = {"target": target, "code": code, "message": f"m{code}", "data": hint}
                    col.record(case, check(case))
                for t_, ph_ in ((50, -4), (50, -2), (100, -2), (50, 0)):
                    case = {"target": target, "code": code, "message": f"m{code}", "t_err": t_, "phase": ph_}
                    col.record(case, check(case))
            if code in NAMED and target == "send_message":
                for opts_ in (["token"], ["progress"], ["token", "progress"]):
                    case = {"target": target, "code": code, "message": f"m{code}", "opts": opts_}
                    col.record(case, check(case))
                for opts_ in (["progress"], ["progress_raises"], ["progress_raises_later"], ["progress_slow_later"], ["token", "progress_raises_later"]):
                    for t_ in (10, 50):
                        case = {"target": target, "code": code, "message": f"m{code}", "opts": opts_, "progress_before": True, "t_err": t_}
                        col.record(case, check(case))
            if code in NAMED:
                for extra_ in ({}, {"message": None}, {"typed": True}, {"data": {"k": [None]}}, {"peer": True}):
                    case = {"target": target, "code": code, "message": f"m{code}", "debug_log": True, **extra_}
                    col.record(case, check(case))
            if code in NAMED:
                for extra_ in ({"after_success": True}, {"peer_stops_reading": True}, {"after_success": True, "peer_stops_reading": True}, {"after_success": True, "typed": True}, {"peer_stops_reading": True, "message": None}):
                    case = {"target": target, "code": code, "message": f"m{code}", **extra_}
                    col.record(case, check(case))
            if code in NAMED:
                for typed_, peer_ in ((True, False), (False, True), (True, True)):
                    case = {"target": target, "code": code, "message": f"m{code}", "typed": typed_, "peer": peer_}
                    col.record(case, check(case))
    if shard == 0:
        for code in sorted(NAMED):
            for t_cancel in (53, 70, 95):
                case = {"reuse": True, "code": code, "t_cancel": t_cancel}
                col.record(case, check(case))
        case = {"static": True}
        col.record(case, check(case))
        # consecutive calls on one connection: every ordered pair of named codes (and success), then a third call
        named = sorted(NAMED) + [None, 7]
        for ia, a in enumerate(named):
            for ib, b in enumerate(named):
                if a is None and b is None:
                    continue
                case = {"pair": [a, b], "queued": bool((ia + ib) & 1), "own_ids": bool((ia + 2 * ib) & 2)}
                col.record(case, check(case))
        for a in sorted(NAMED):
            case = {"pair": [a, None, -32603, a]}
            col.record(case, check(case))
        col.exhaustive_parts.append(f"codes -33100..-31900 and -200..200 ({len(RANGES)}) x {len(targets)} targets, shape 'message only'; named codes and every 7th code additionally with data and with message absent; named codes additionally as the typed error class and/or with a concurrent request that dequeues the error first")
        col.extra["targets"] = targets


# error data that *looks* meaningful: hints a server may attach; none of them may change how the code is classified
_HINT_KEYS = ["retryable", "retry", "retriable", "permanent", "transient", "temporary", "fatal", "recoverable", "retryAfter", "retry_after", "code", "message", "type", "kind", "category", "severity", "status", "httpStatus", "reason", "details", "error"]
_hint_data = st.dictionaries(st.sampled_from(_HINT_KEYS), st.one_of(st.booleans(), st.integers(-40000, 600), st.sampled_from(["true", "false", "retry", "permanent", "", None])), min_size=1, max_size=3)


@st.composite
def cases(draw):
    target = draw(st.sampled_from(["send_message"] + sorted(helpers())))
    code = draw(st.one_of(
        st.integers(min_value=-(2**63), max_value=2**64 - 1),
        st.sampled_from(sorted(NAMED) + [2**31, -(2**31), 2**53 + 1, 2**63, -(2**63), 2**64 - 1, 0, 1, -1]),
        st.integers(min_value=-32800, max_value=-31900),
    ))
    case: Dict[str, Any] = {"target": target, "code": code}
    m = draw(st.one_of(st.none(), json_text, st.sampled_from(["Protocol Version mismatch", "unsupported protocol version", "x"])))
    case["message"] = m
    if draw(st.booleans()):
        case["data"] = draw(st.one_of(json_values(6), _hint_data))
    if draw(st.integers(0, 3)) == 0:
        case["t_err"] = draw(st.sampled_from([50, 100, 49, 51]))
        case["phase"] = draw(st.sampled_from([0, -1, -2, -4]))
    if draw(st.integers(0, 2)) == 0:
        case["typed"] = True
    if draw(st.integers(0, 3)) == 0:
        case["peer"] = True
    if draw(st.integers(0, 3)) == 0:
        case["debug_log"] = True
    if not case.get("peer") and draw(st.integers(0, 3)) == 0:
        case["after_success"] = True
    if not case.get("peer") and draw(st.integers(0, 3)) == 0:
        case["peer_stops_reading"] = True
    if target == "send_message" and draw(st.booleans()):
        case["opts"] = draw(st.lists(st.sampled_from(["token", "progress", "progress_raises", "progress_raises_later", "progress_slow_later"]), min_size=1, max_size=2, unique=True))
        if any(o.startswith("progress") for o in case["opts"]) and draw(st.booleans()):
            case["progress_before"] = True
    return case


def job_hyp(col: Collector, seed: int, tier: str, shard: int, n: int) -> None:
    hyp_run(col, seed * 1000 + shard, cases(), check, n)


JOBS = {"enum": job_enum, "hyp": job_hyp}


def jobs(tier: str):
    if tier == "quick":
        return [("enum", {"shard": s, "nshards": 14}) for s in range(14)] + [("hyp", {"shard": s, "n": 400}) for s in range(2)]
    return [("enum", {"shard": s, "nshards": 16}) for s in range(16)] + [("hyp", {"shard": s, "n": 4000}) for s in range(16)]


def shrink(signature: str, seed: int):
    return hyp_shrink(seed * 1000, cases(), check, signature, 2000)
