"""Runner: seed/tier plumbing, sharding, collect-then-report, evidence, exit codes.

Exit codes: 0 held (possibly with KNOWN-FINDING lines); 1 at least one VIOLATION line;
2 harness error / inconclusive (never dressed up as a violation).
"""
from __future__ import annotations

import hashlib
import importlib
import json
import os
import sys
import time
import traceback
from concurrent.futures import ProcessPoolExecutor
import multiprocessing as mp
from dataclasses import dataclass, field
from typing import Any, Callable, Dict, List, Optional, Tuple

VERIF_DIR = os.path.dirname(os.path.dirname(os.path.abspath(__file__)))
REPO = os.environ.get("VERIF_REPO", "/repo")
OUT_DIR = os.environ.get("VERIF_OUT", VERIF_DIR)  # evidence/ and replays/ go here (mutation runs redirect it)
MAX_SAMPLES = 8
NPROC = int(os.environ.get("VERIF_NPROC", "16"))
JOB_WALL_LIMIT = {"quick": 900, "thorough": 4 * 3600}


def ensure_repo_on_path() -> None:
    src = os.path.join(REPO, "src")
    if sys.path[0] != src:
        sys.path.insert(0, src)
    import chuk_mcp  # noqa

    got = os.path.realpath(chuk_mcp.__file__)
    want = os.path.realpath(os.path.join(src, "chuk_mcp", "__init__.py"))
    if got != want:
        raise HarnessError(f"chuk_mcp imported from {got}, expected {want}")


class HarnessError(Exception):
    pass


def canon(obj: Any) -> str:
    """Type-strict canonical text of a plain-data value (for digests)."""
    return json.dumps(_tag(obj), sort_keys=True, ensure_ascii=True, separators=(",", ":"))


def _tag(o: Any) -> Any:
    if isinstance(o, bool):
        return {"#b": o}
    if isinstance(o, int):
        return {"#i": str(o)}
    if isinstance(o, float):
        return {"#f": repr(o)}
    if isinstance(o, str):
        return o
    if o is None:
        return None
    if isinstance(o, (list, tuple)):
        return [_tag(x) for x in o]
    if isinstance(o, dict):
        return {str(k): _tag(v) for k, v in o.items()}
    if isinstance(o, bytes):
        return {"#y": o.hex()}
    return {"#r": repr(o)}


def digest(obj: Any) -> str:
    return hashlib.sha1(canon(obj).encode()).hexdigest()[:16]


def jsonable(o: Any) -> Any:
    """Make a plain-data case writable as JSON (bytes -> {"$bytes": hex}, big floats kept)."""
    if isinstance(o, bytes):
        return {"$bytes": o.hex()}
    if isinstance(o, (list, tuple)):
        return [jsonable(x) for x in o]
    if isinstance(o, dict):
        return {str(k): jsonable(v) for k, v in o.items()}
    if isinstance(o, float) and (o != o or o in (float("inf"), float("-inf"))):
        return {"$float": repr(o)}
    if isinstance(o, (str, int, float, bool)) or o is None:
        return o
    return {"$repr": repr(o)}


def unjsonable(o: Any) -> Any:
    if isinstance(o, dict):
        if set(o.keys()) == {"$bytes"}:
            return bytes.fromhex(o["$bytes"])
        if set(o.keys()) == {"$float"}:
            return float(o["$float"])
        return {k: unjsonable(v) for k, v in o.items()}
    if isinstance(o, list):
        return [unjsonable(x) for x in o]
    return o


@dataclass
class Failure:
    signature: str
    detail: str
    case: Any
    size: int = 0


@dataclass
class Outcome:
    """Result of checking one case."""

    nontrivial: bool = False
    key: Any = None  # what makes this case distinct (digest input); default: the case
    classes: Tuple[str, ...] = ()
    failures: List[Tuple[str, str]] = field(default_factory=list)  # (signature, detail)

    def fail(self, signature: str, detail: str = "") -> None:
        self.failures.append((signature, detail))


class Collector:
    def __init__(self) -> None:
        self.evaluations = 0
        self.nontrivial: set = set()
        self.classes: Dict[str, int] = {}
        self.samples: List[Any] = []
        self.failures: Dict[str, Failure] = {}
        self.extra: Dict[str, Any] = {}
        self.exhaustive_parts: List[str] = []
        self.uncovered: List[str] = []
        # distinct non-trivial cases counted by construction (enumerations whose members are
        # pairwise distinct and therefore need no digest set)
        self.nontrivial_extra = 0

    def record(self, case: Any, out: Outcome) -> None:
        self.evaluations += 1
        for c in out.classes:
            self.classes[c] = self.classes.get(c, 0) + 1
        if out.nontrivial:
            d = digest(out.key if out.key is not None else case)
            if d not in self.nontrivial:
                self.nontrivial.add(d)
                if len(self.samples) < MAX_SAMPLES:
                    self.samples.append(jsonable(case))
        for sig, detail in out.failures:
            size = len(canon(jsonable(case)))
            cur = self.failures.get(sig)
            if cur is None or size < cur.size:
                self.failures[sig] = Failure(sig, detail, jsonable(case), size)

    def count(self, cls: str, n: int = 1) -> None:
        self.classes[cls] = self.classes.get(cls, 0) + n

    def merge(self, other: "Collector") -> None:
        self.evaluations += other.evaluations
        self.nontrivial |= other.nontrivial
        self.nontrivial_extra += other.nontrivial_extra
        for k, v in other.classes.items():
            self.classes[k] = self.classes.get(k, 0) + v
        for s in other.samples:
            if len(self.samples) < MAX_SAMPLES * 2:
                self.samples.append(s)
        for sig, f in other.failures.items():
            cur = self.failures.get(sig)
            if cur is None or f.size < cur.size:
                self.failures[sig] = f
        for k, v in other.extra.items():
            if isinstance(v, (int, float)) and isinstance(self.extra.get(k), (int, float)):
                self.extra[k] = self.extra[k] + v
            elif isinstance(v, list) and isinstance(self.extra.get(k), list):
                self.extra[k] = self.extra[k] + [x for x in v if x not in self.extra[k]]
            else:
                self.extra[k] = v
        self.exhaustive_parts += [p for p in other.exhaustive_parts if p not in self.exhaustive_parts]
        self.uncovered += [p for p in other.uncovered if p not in self.uncovered]


# ---------------------------------------------------------------------------------------
# Hypothesis driving
# ---------------------------------------------------------------------------------------

def hyp_run(col: Collector, seed: int, strategy, check: Callable[[Any], Outcome], n: int,
            shrink_signatures: Optional[List[str]] = None) -> None:
    """Generate n cases from `strategy`, check each, record outcomes (never raises on
    oracle failures: collect mode)."""
    import hypothesis
    from hypothesis import HealthCheck, Phase, given, settings

    st = settings(
        max_examples=n,
        database=None,
        deadline=None,
        derandomize=False,
        report_multiple_bugs=False,
        suppress_health_check=list(HealthCheck),
        phases=[Phase.generate],
    )

    @hypothesis.seed(seed)
    @st
    @given(strategy)
    def _t(case):
        out = check(case)
        col.record(case, out)

    _t()


def hyp_shrink(seed: int, strategy, check: Callable[[Any], Outcome], signature: str, n: int,
               budget_s: float = 120.0) -> Optional[Any]:
    """Second pass: find and shrink a case whose failures include `signature`."""
    import hypothesis
    from hypothesis import HealthCheck, Phase, given, settings

    best: Dict[str, Any] = {}
    t0 = time.time()

    class _Hit(Exception):
        pass

    st = settings(
        max_examples=n,
        database=None,
        deadline=None,
        derandomize=False,
        report_multiple_bugs=False,
        suppress_health_check=list(HealthCheck),
        phases=[Phase.generate, Phase.shrink],
    )

    @hypothesis.seed(seed)
    @st
    @given(strategy)
    def _t(case):
        if time.time() - t0 > budget_s and "case" in best:
            return  # stop shrinking: keep best so far
        out = check(case)
        if any(s == signature for s, _ in out.failures):
            size = len(canon(jsonable(case)))
            if "case" not in best or size <= best["size"]:
                best["case"] = jsonable(case)
                best["size"] = size
            raise _Hit()

    try:
        _t()
    except _Hit:
        pass
    except Exception:
        pass
    return best.get("case")


# ---------------------------------------------------------------------------------------
# Job execution
# ---------------------------------------------------------------------------------------

def _worker(args) -> Tuple[str, Any]:
    modname, jobname, kwargs, seed, tier = args
    if "_env" in kwargs and os.environ.get("VPBT_SUBJOB") != "1":
        return _run_in_fresh_interpreter(args)
    kwargs = {k: v for k, v in kwargs.items() if k != "_env"}
    try:
        os.environ.setdefault("PYTHONHASHSEED", "0")
        import faulthandler

        # wall-clock guard against a hung job: dump tracebacks and kill the worker (-> exit 2)
        faulthandler.dump_traceback_later(JOB_WALL_LIMIT[tier], exit=True)
        ensure_repo_on_path()
        _quiet_logging()
        mod = importlib.import_module(modname)
        from .logmode import install as _install_logmode

        _install_logmode(mod)
        col = Collector()
        t0 = time.time()
        mod.JOBS[jobname](col, seed=seed, tier=tier, **kwargs)
        col.extra.setdefault("job_wall_s", {})
        col.extra["job_wall_s"] = {f"{jobname}{_kw(kwargs)}": round(time.time() - t0, 2)}
        faulthandler.cancel_dump_traceback_later()
        return ("ok", col)
    except BaseException:
        try:
            faulthandler.cancel_dump_traceback_later()
        except Exception:
            pass
        return ("err", f"job {jobname} {kwargs}:\n" + traceback.format_exc())


def _run_in_fresh_interpreter(args) -> Tuple[str, Any]:
    """Run one job in a new interpreter with extra environment (backend selection happens
    at import time in the library, so a forked worker cannot switch it)."""
    import pickle
    import subprocess

    modname, jobname, kwargs, seed, tier = args
    env = dict(os.environ, PYTHONHASHSEED="0", VPBT_SUBJOB="1")
    env.update(kwargs["_env"])
    env["PYTHONPATH"] = VERIF_DIR + os.pathsep + env.get("PYTHONPATH", "")
    try:
        p = subprocess.run([sys.executable, "-m", "vpbt.subjob"], input=pickle.dumps(args), stdout=subprocess.PIPE, env=env, cwd=VERIF_DIR,
                           timeout=JOB_WALL_LIMIT[tier] + 60)
        if p.returncode != 0 or not p.stdout:
            return ("err", f"sub-interpreter job {jobname} {kwargs} exited {p.returncode}")
        return pickle.loads(p.stdout)
    except BaseException:
        return ("err", f"sub-interpreter job {jobname} {kwargs}:\n" + traceback.format_exc())


def _kw(kwargs) -> str:
    if not kwargs:
        return ""
    return "[" + ",".join(f"{k}={v}" for k, v in sorted(kwargs.items()) if k in ("shard", "part", "name", "backend")) + "]"


def _quiet_logging() -> None:
    import logging

    logging.disable(logging.CRITICAL)
    import warnings

    warnings.filterwarnings("ignore")


def load_known(pid: str) -> Tuple[Dict[str, dict], List[dict]]:
    path = os.path.join(VERIF_DIR, "known_findings.json")
    if not os.path.exists(path):
        return {}, []
    data = json.load(open(path))
    open_ = {}
    fixed = []
    for e in data.get("findings", []):
        if e.get("property") != pid:
            continue
        if e.get("status") == "open":
            open_[e["signature"]] = e
        else:
            fixed.append(e)
    return open_, fixed


def run_property(pid: str, tier: str, seed: int, replay: Optional[str] = None) -> int:
    t0 = time.time()
    ensure_repo_on_path()
    _quiet_logging()
    for stream_ in (sys.stdout, sys.stderr):
        try:
            # a broken encoder under test can hand back lone surrogates; reporting them must not crash the reporter
            stream_.reconfigure(errors="backslashreplace")  # type: ignore[attr-defined]
        except Exception:
            pass
    modname = f"vpbt.props.{pid.lower()}"
    mod = importlib.import_module(modname)
    from .logmode import install as _install_logmode

    _install_logmode(mod)

    if replay:
        return _replay_file(mod, pid, replay)

    total = Collector()
    errors: List[str] = []

    # 1. regression replays (explicit cases, no RNG)
    regdir = os.path.join(VERIF_DIR, "regressions", pid)
    nreg = 0
    if os.path.isdir(regdir):
        for fn in sorted(os.listdir(regdir)):
            if not fn.endswith(".json"):
                continue
            data = json.load(open(os.path.join(regdir, fn)))
            case = unjsonable(data["case"])
            try:
                out = mod.check(case)
            except Exception:
                errors.append(f"regression {fn}:\n" + traceback.format_exc())
                continue
            total.record(case, out)
            nreg += 1
    total.extra["regressions_replayed"] = nreg

    # 2. jobs
    jobs = mod.jobs(tier)
    args = [(modname, name, kw, seed, tier) for name, kw in jobs]
    nproc = min(NPROC, max(1, len(args)))
    if getattr(mod, "SERIAL", False) or nproc == 1:
        results = [_worker(a) for a in args]
    else:
        ctx = mp.get_context("fork")
        try:
            with ProcessPoolExecutor(max_workers=nproc, mp_context=ctx) as ex:
                results = list(ex.map(_worker, args))
        except Exception:
            results = [("err", "worker pool broke (a job hung past its wall limit or crashed):\n" + traceback.format_exc())]
    for status, payload in results:
        if status == "ok":
            total.merge(payload)
        else:
            errors.append(payload)

    known_open, _fixed = load_known(pid)
    violations: List[Tuple[Failure, str]] = []
    known_hit: List[str] = []
    for sig in sorted(total.failures):
        f = total.failures[sig]
        if sig in known_open:
            known_hit.append(sig)
            print(f"KNOWN-FINDING: property={pid} {sig}: {known_open[sig].get('what', '')}")
            continue
        # shrink in thorough tier if the module supports it
        case = f.case
        if tier == "thorough" and hasattr(mod, "shrink"):
            try:
                better = mod.shrink(sig, seed)
                if better is not None:
                    case = better
            except Exception:
                pass
        rdir = os.path.join(OUT_DIR, "replays", pid)
        os.makedirs(rdir, exist_ok=True)
        rpath = os.path.join(rdir, digest([sig, case]) + ".json")
        with open(rpath, "w") as fh:
            json.dump({"property": pid, "signature": sig, "detail": f.detail, "case": case}, fh, indent=1)
        violations.append((f, rpath))

    wall = time.time() - t0
    ev = {
        "property_id": pid,
        "tier": tier,
        "seed": seed,
        "level": mod.LEVEL,
        "coverage": {
            "evaluations": total.evaluations,
            "distinct_nontrivial": len(total.nontrivial) + total.nontrivial_extra,
            "rule": mod.RULE,
            "samples": total.samples[:MAX_SAMPLES],
            "classes": dict(sorted(total.classes.items())),
            "exhaustive": bool(getattr(mod, "EXHAUSTIVE", {}).get(tier, False)),
            "exhaustive_parts": total.exhaustive_parts,
            "uncovered_targets": total.uncovered,
            "known_findings_hit": known_hit,
            "violation_signatures": [f.signature for f, _ in violations],
            **{k: v for k, v in total.extra.items()},
        },
        "assumptions": list(getattr(mod, "ASSUMPTIONS", [])),
        "wall_s": round(wall, 2),
        "violations": len(violations),
    }
    os.makedirs(os.path.join(OUT_DIR, "evidence"), exist_ok=True)
    with open(os.path.join(OUT_DIR, "evidence", f"{pid}.json"), "w") as fh:
        json.dump(ev, fh, indent=1, sort_keys=False, default=repr)
        fh.write("\n")

    for f, rpath in violations:
        print(f"VIOLATION property={pid} replay={rpath}")
        print(f"  signature={f.signature} detail={f.detail[:300]}")
    if errors:
        for e in errors:
            print("HARNESS-ERROR:", e, file=sys.stderr)
        if not violations:
            return 2
    if violations:
        return 1
    # health: required classes
    for cls, minimum in getattr(mod, "REQUIRED_CLASSES", {}).get(tier, {}).items():
        if total.classes.get(cls, 0) < minimum:
            print(f"INCONCLUSIVE: class {cls} has {total.classes.get(cls, 0)} < {minimum}", file=sys.stderr)
            return 2
    if len(total.nontrivial) + total.nontrivial_extra < 2 or total.evaluations < 1:
        print("INCONCLUSIVE: fewer than 2 distinct non-trivial cases", file=sys.stderr)
        return 2
    print(
        f"OK property={pid} tier={tier} seed={seed} evaluations={total.evaluations} "
        f"distinct_nontrivial={len(total.nontrivial) + total.nontrivial_extra} known_findings={len(known_hit)} wall={wall:.1f}s"
    )
    return 0


def _replay_file(mod, pid: str, path: str) -> int:
    data = json.load(open(path))
    case = unjsonable(data["case"])
    out = mod.check(case)
    known_open, _ = load_known(pid)
    rc = 0
    for sig, detail in out.failures:
        if sig in known_open:
            print(f"KNOWN-FINDING: property={pid} {sig}")
        else:
            print(f"VIOLATION property={pid} replay={os.path.abspath(path)}")
            print(f"  signature={sig} detail={detail[:1000]}")
            rc = 1
    if not out.failures:
        print(f"OK replay {path}: no failure")
    return rc
