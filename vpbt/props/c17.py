"""C17 - JSON encoding is backend-independent and always a single NDJSON frame."""
from __future__ import annotations

import atexit
import itertools
from typing import Any, Dict, List, Optional, Tuple

from hypothesis import strategies as st

from ..backend_worker import Worker
from ..jsongen import I64_MIN, U64_MAX, is_nontrivial_json, json_values
from ..jsonrpc_ref import first_diff, strict_eq
from ..runner import Collector, Outcome, hyp_run, hyp_shrink

ID = "C17"
LEVEL = "exploration"
RULE = (
    "case = batch of JSON values; each value is encoded by 4 worker processes (validation backend Pydantic/fallback x JSON backend orjson/stdlib, selected at import "
    "time) through fast_json.dumps (default, compact separators, indent=None, after a pretty-printing call) and the model_dump_json path (request params / response result), and every distinct encoding is decoded "
    "by every worker through fast_json.loads, framed by the stdio reader (alone, and all together in reads not aligned to lines) and the values are also written by the stdio writer as plain-dict messages; oracle: decode(encode(v)) equals v type-strictly (float bit pattern, int exactness) for every (encoder, decoder) pair and no "
    "encoding contains a raw LF/CR; values: bounded-exhaustive grammar (depth<=3, reduced alphabets at depth) over a leaf alphabet with 64-bit boundaries, -0.0, 1e308, "
    "denormals, every C0 control, U+0085/2028/2029, BMP boundary and astral characters, non-ASCII keys, plus Hypothesis recursive values and seeded deep values (100..300 levels, around orjson's 254-level limit) and runs of same-shaped sibling containers encoded one after the other in one process; non-trivial = value contains an int "
    "beyond 2^53, a non-integral float, a control/line-separator/non-ASCII character or null; distinct = distinct value"
    "; round 8: reads ending inside a multi-byte character of a later frame (frames compared by value)"
    "; added in rounds 6-7 of the seeded changes: decoding documents nested up to 5,000 levels; reader frame must equal the decoded text; object values as params/result themselves; edge-whitespace / zero-width texts as names and values"
)
ASSUMPTIONS = [
    "integers are restricted to the signed/unsigned 64-bit range and floats to finite values (the property's domain); strings are lone-surrogate-free",
    "backend selection is real: workers assert HAS_ORJSON / PYDANTIC_AVAILABLE after import",
]
EXHAUSTIVE = {"quick": False, "thorough": True}
META = {
    "text": "Differential round-trip over real backend processes: every generated value goes through every encoder path of every backend combination and every decoder; type-strict equality and the single-frame condition are checked for all pairs.",
    "technique": "differential testing across 4 backend worker processes; bounded-exhaustive JSON grammar + Hypothesis recursive values; round-trip oracle",
}

_WORKERS: Optional[List[Worker]] = None


def workers() -> List[Worker]:
    from ..backend_worker import get_workers

    return get_workers(tuple((fb, oj) for fb in (False, True) for oj in (True, False)))


def wname(w: Worker) -> str:
    return ("fallback" if w.fallback else "pydantic") + "+" + ("orjson" if w.orjson_on else "stdlib")


PATHS = ["dumps", "dumps_compact", "dumps_indent_none", "dumps_after_pretty", "model_request", "model_response", "model_request_top", "model_response_top"]


def depth_of(v: Any) -> int:
    """nesting depth, iteratively (values may be nested beyond the interpreter's recursion comfort)"""
    d, stack = 0, [(v, 0)]
    while stack:
        x, k = stack.pop()
        if isinstance(x, dict):
            d = max(d, k + 1)
            stack.extend((y, k + 1) for y in x.values())
        elif isinstance(x, list):
            d = max(d, k + 1)
            stack.extend((y, k + 1) for y in x)
    return d


def deep_value(n: int, kind: str, leaf: Any) -> Any:
    v = leaf
    for i in range(n):
        if kind == "list" or (kind == "alt" and i % 2):
            v = [v]
        else:
            v = {"k": v}
    return v


def expand_deep(v: Any) -> Any:
    if isinstance(v, dict) and set(v) == {"$deep"} and isinstance(v["$deep"], list) and len(v["$deep"]) == 3 and type(v["$deep"][0]) is int and v["$deep"][1] in ("list", "dict", "alt"):
        return deep_value(*v["$deep"])
    return v


def _writer_lines(messages: List[Any], burst: bool = False) -> Any:
    """the messages through a real StdioClient writer task (scripted child): the newline-terminated lines on the pipe"""
    import asyncio

    from chuk_mcp.transports.stdio.stdio_client import StdioClient

    from ..fakeproc import FakeProcess, patched_open_process, stdio_params
    from ..vclock import run_virtual

    procs: List[FakeProcess] = []

    async def main():
        with patched_open_process(procs):
            async with StdioClient(stdio_params()) as client:
                _r, w = client.get_streams()
                for m in messages:
                    if burst:
                        w.send_nowait(m)
                    else:
                        await w.send(m)
                await asyncio.sleep(0.05)

    try:
        run_virtual(main)
    except Exception as e:  # noqa
        return f"{type(e).__name__}: {e}"
    data = procs[0].stdin.data if procs else b""
    lines = data.split(b"\n")
    if lines and lines[-1] != b"":
        return f"last line not newline-terminated: ...{data[-60:]!r}"
    return lines[:-1]


def deep_text(depth: int, kind: str, leaf: str) -> str:
    """a valid JSON document nested `depth` levels, written directly as text (what a peer may send)"""
    opens, closes = [], []
    for i in range(depth):
        d = kind == "dict" or (kind == "alt" and i % 2)
        opens.append('{"k":' if d else "[")
        closes.append("}" if d else "]")
    return "".join(opens) + leaf + "".join(reversed(closes))


def check_decode_deep(case: Dict[str, Any]) -> Outcome:
    """a deep document decodes to the same value under every backend (str and bytes input) or under none"""
    depth, kind, leaf = case["decode_deep"]
    out = Outcome(nontrivial=True, classes=("decode-deep", f"depth:{'<=254' if depth <= 254 else ('<=1024' if depth <= 1024 else '>1024')}", f"kind:{kind}"))
    text = deep_text(depth, kind, leaf)
    res = [w.request({"op": "json_decode_digest", "texts": [text]}) for w in workers()]
    flat = [tuple(r) for rs in res for r in rs]
    oks = [r for r in flat if r[0] == "ok"]
    if oks and len(oks) != len(flat):
        names = [f"{lab}:{form}={r[0] if r[0] == 'ok' else r[1]}" for lab, rs in zip(("fast", "stdlib"), res) for form, r in zip(("str", "bytes"), rs)]
        out.fail("deep-document-decodes-under-one-backend-only", f"depth {depth} ({kind}, leaf {leaf}): {names}")
    elif oks and len({r[1] for r in oks}) != 1:
        out.fail("deep-document-decodes-to-different-values", f"depth {depth} ({kind})")
    elif oks and any(r[2] != depth for r in oks):
        out.fail("deep-document-decodes-to-another-depth", f"depth {depth} ({kind}): containers seen {[r[2] for r in oks]}")
    return out


def check(case: Dict[str, Any]) -> Outcome:
    if "decode_deep" in case:
        return check_decode_deep(case)
    out = Outcome()
    values: List[Any] = [expand_deep(v) for v in case["values"]]
    deep = [depth_of(v) >= 250 for v in values]
    ws = workers()
    enc = [w.request({"op": "json_encode", "values": values}) for w in ws]
    # collect distinct texts
    texts: Dict[str, int] = {}
    for wi, w in enumerate(ws):
        for vi in range(len(values)):
            for p in PATHS:
                t = enc[wi][vi][p]
                if isinstance(t, str) and t not in texts:
                    texts[t] = len(texts)
    tlist = list(texts)
    dec = [w.request({"op": "json_decode", "texts": tlist}) for w in ws]
    # every encoding, sent as one NDJSON line through the stdio reader's framing, must come out as exactly one frame
    from ..fuzz.targets import _stdio_lines

    framed: Dict[str, Any] = {}
    for t in tlist:
        got_lines, err = _stdio_lines([(t + "\n").encode("utf-8")])
        framed[t] = (got_lines, err)
    # ... and all of them together, as consecutive lines arriving in reads that are not aligned to lines (the first
    # frame spread over several reads, the following ones in the same read as its tail), must come out as that many frames
    if len(tlist) >= 2:
        order = sorted(tlist, key=len, reverse=True)[:40]
        blob = b"".join((t + "\n").encode("utf-8") for t in order)
        first = len((order[0] + "\n").encode("utf-8"))
        for cutset in ([first // 3, 2 * first // 3], [max(1, first - 2)], [first // 2, first + 1], list(range(4096, len(blob), 4096))):
            pos = [0] + sorted({c for c in cutset if 0 < c < len(blob)}) + [len(blob)]
            chunks = [blob[a:b] for a, b in zip(pos, pos[1:]) if b > a]
            got_multi, merr = _stdio_lines(chunks)
            if merr or len(got_multi) != len(order):
                out.fail("encoded-messages-are-not-one-frame-each-when-reads-are-not-line-aligned", f"{len(order)} encodings sent as consecutive lines in {len(chunks)} reads (cuts {cutset[:4]}): reader produced {len(got_multi)} frames ({merr})")
                break
        # a read that ends inside a multi-byte character of a LATER frame (the same read carried the line ends of the frames
        # before it): every frame must still be the value its text encodes
        inside = [c for c in range(first + 1, len(blob)) if (blob[c] & 0xC0) == 0x80][:400]
        for c in inside[:: max(1, len(inside) // 24)]:
            got_multi, merr = _stdio_lines([blob[:c], blob[c:]])
            if merr or len(got_multi) != len(order):
                out.fail("encoded-messages-are-not-one-frame-each-when-reads-are-not-line-aligned", f"{len(order)} encodings in 2 reads, the first ending inside a multi-byte character at byte {c}: reader produced {len(got_multi)} frames ({merr})")
                break
            bad = [k_ for k_, t_ in enumerate(order) if framed[t_][0] and len(framed[t_][0]) == 1 and first_diff(got_multi[k_], framed[t_][0][0])]
            if bad:
                out.fail("stdio-reader-frame-differs-when-a-read-ends-inside-a-character", f"read boundary at byte {c}: frame {bad[0]} differs from the same line read alone: {str(first_diff(got_multi[bad[0]], framed[order[bad[0]]][0][0]))[:200]}")
                break
    # ... and written by the stdio writer (plain-dict messages, the path that encodes through the JSON backend in use
    # in this process), each value must arrive as exactly one line that decodes to it
    w_lines = _writer_lines([{"jsonrpc": "2.0", "method": "m", "params": {"v": v_}} for v_ in values])
    if isinstance(w_lines, str):
        out.fail("stdio-writer-failed-on-in-domain-values", w_lines)
    elif len(w_lines) != len(values):
        out.fail("stdio-writer-frames-differ-from-messages", f"{len(values)} messages written, {len(w_lines)} newline-terminated lines on the pipe")
    else:
        import json as _json

        for v_, ln in zip(values, w_lines):
            try:
                back = _json.loads(ln.decode("utf-8"))
            except Exception as e_:  # noqa
                out.fail("stdio-writer-line-not-json", f"{type(e_).__name__}: {ln[:120]!r}")
                break
            if not strict_eq(back.get("params", {}).get("v", "$missing") if isinstance(back, dict) else "$notdict", v_):
                out.fail("stdio-writer-line-differs-from-value", str(first_diff(back.get("params", {}).get("v") if isinstance(back, dict) else back, v_))[:300])
                break
    # ... and queued all at once, with enough ballast that the burst crosses 64 KiB somewhere in the middle
    if 2 <= len(values) <= 90:
        ballast = "b" * max(1, 70000 // len(values))
        b_lines = _writer_lines([{"jsonrpc": "2.0", "method": "m", "params": {"v": v_, "ballast": ballast}} for v_ in values], burst=True)
        if isinstance(b_lines, str):
            out.fail("stdio-writer-failed-on-in-domain-values", "burst: " + b_lines)
        elif len(b_lines) != len(values):
            out.fail("stdio-writer-frames-differ-from-messages", f"burst of {len(values)} messages ({70000 // len(values)} bytes of ballast each): {len(b_lines)} newline-terminated lines on the pipe")
        else:
            import json as _json2

            for v_, ln in zip(values, b_lines):
                try:
                    back = _json2.loads(ln.decode("utf-8"))
                except Exception as e_:  # noqa
                    out.fail("stdio-writer-line-not-json", f"burst: {type(e_).__name__}: {ln[:120]!r}")
                    break
                if not strict_eq(back.get("params", {}).get("v", "$missing") if isinstance(back, dict) else "$notdict", v_):
                    out.fail("stdio-writer-line-differs-from-value", "burst (order or content): " + str(first_diff(back.get("params", {}).get("v") if isinstance(back, dict) else back, v_))[:300])
                    break
    nt = 0
    for vi, v in enumerate(values):
        if is_nontrivial_json(v):
            nt += 1
        for wi, w in enumerate(ws):
            for p in PATHS:
                t = enc[wi][vi][p]
                if isinstance(t, (list, tuple)) and len(t) == 1 and t[0] == "$skip":
                    continue  # (path not applicable to this value)
                if not isinstance(t, str) and deep[vi] and p.startswith("model_") and not w.fallback:
                    continue  # Pydantic's own serialiser refuses nesting beyond 255 levels; that is not the JSON backend's doing
                if not isinstance(t, str):
                    out.fail(f"encode-failed:{p}:{'orjson' if w.orjson_on else 'stdlib'}", f"{wname(w)} {p}: {t!r} for value {v!r}")
                    continue
                if "\n" in t or "\r" in t:
                    out.fail(f"raw-line-break-in-encoding:{p}", f"{wname(w)} {p}: {t!r}")
                else:
                    fl, ferr = framed[t]
                    if ferr or len(fl) != 1:
                        out.fail("encoded-message-is-not-exactly-one-frame-for-the-stdio-reader", f"{wname(w)} {p}: reader produced {len(fl)} frame(s) ({ferr}) from {t[:200]!r}")
                    else:
                        import json as _json3

                        try:
                            ref_ = _json3.loads(t)
                        except Exception:
                            ref_ = None
                        if ref_ is not None and not strict_eq(fl[0], ref_):
                            out.fail("stdio-reader-frame-differs-from-the-encoded-text", f"{wname(w)} {p}: {str(first_diff(fl[0], ref_))[:200]} text={t[:160]!r}")
                for di, d in enumerate(ws):
                    status, got = dec[di][texts[t]]
                    if status != "ok":
                        out.fail(f"decode-failed:{'orjson' if d.orjson_on else 'stdlib'}", f"encoded by {wname(w)} {p}, decoder {wname(d)}: {got!r} text={t[:200]!r}")
                        continue
                    if p == "model_request":
                        got = got.get("params", {}).get("v", "$missing") if isinstance(got, dict) else "$notdict"
                    elif p == "model_response":
                        got = got.get("result", {}).get("v", "$missing") if isinstance(got, dict) else "$notdict"
                    elif p == "model_request_top":
                        got = got.get("params", {}) if isinstance(got, dict) else "$notdict"  # ({} is omitted by exclude_none? no: kept or omitted, both mean {})
                    elif p == "model_response_top":
                        got = got.get("result", "$missing") if isinstance(got, dict) else "$notdict"
                    if not strict_eq(got, v):
                        enc_b = "orjson" if w.orjson_on else "stdlib"
                        dec_b = "orjson" if d.orjson_on else "stdlib"
                        path_kind = "model" if p.startswith("model") else "dumps"
                        vb = ("fallback" if w.fallback else "pydantic") if path_kind == "model" else "-"
                        out.fail(f"roundtrip-differs:{path_kind}:{vb}:enc={enc_b}:dec={dec_b}", f"{first_diff(got, v)} text={t[:200]!r}")
    out.nontrivial = nt > 0
    out.key = case
    out.classes = (f"nontrivial-values:{nt}/{len(values)}",)
    out.extra_nt = nt  # type: ignore
    return out


def record_batch(col: Collector, values: List[Any]) -> None:
    """Record a batch as len(values) evaluations with per-value non-triviality."""
    case = {"values": values}
    o = check(case)
    # per-value accounting (values in a batch are pairwise distinct by construction for the grammar)
    col.evaluations += len(values) - 1
    from ..runner import digest

    for v in values:
        if is_nontrivial_json(v):
            col.nontrivial.add(digest(v))
    if o.failures:
        # re-run failing values one by one to keep replays minimal
        for v in case["values"]:
            o1 = check({"values": [v]})
            if o1.failures:
                o1.nontrivial = False
                col.evaluations -= 1
                col.record({"values": [v]}, o1)
        col.evaluations += 1
        return
    o.nontrivial = False
    col.record(case, o)
    if len(col.samples) < 6:
        col.samples.append({"values": [v for v in values if is_nontrivial_json(v)][:3]})


C0 = [chr(i) for i in range(0x20)]
LEAVES_FULL: List[Any] = (
    [None, True, False, 0, 1, -1, 2**31, 2**53, 2**53 + 1, -(2**53) - 1, 2**63 - 1, 2**63, U64_MAX, I64_MIN, I64_MIN + 1,
     0.0, -0.0, 1.5, -1.5, 0.1, 1e308, -1e308, 5e-324, 2.2250738585072014e-308, 1e16, 1e22, 1.7976931348623157e308, 123456789.125,
     "", "a", " ", '"', "\\", "/", "\x7f", "\u0080", "\u0085", "\u00a0", "\u07ff", "\u0800", "\u2028", "\u2029", "\ud7ff", "\ue000", "\ufeff", "\ufffd", "\uffff",
     "\U00010000", "\U0001F600", "\U0010FFFF", "a\nb", "\r\n", "123", "null", "\u00e9" * 3]
    + C0
)
LEAVES_SMALL: List[Any] = [None, True, 0, 2**63, -0.0, 1.5, "", "\n", "\u2028", "\U0001F600"]
KEYS = ["k", "", "é", "\n", "\U0001F600", " "]


def grammar_values():
    """depth<=3: full leaves; depth 1 containers over full leaves (<=2 members); depth 2 over small-leaf depth-1 values; depth 3 single-member wrappers."""
    for v in LEAVES_FULL:
        yield v
    yield []
    yield {}
    # depth 1, full leaves
    for a in LEAVES_FULL:
        yield [a]
        for k in KEYS:
            yield {k: a}
    for a, b in itertools.product(LEAVES_FULL[:40], repeat=2):
        yield [a, b]
        yield {"k": a, "é": b}
    # depth-1 over small leaves
    d1: List[Any] = list(LEAVES_SMALL) + [[], {}]
    for a in LEAVES_SMALL:
        d1.append([a])
        d1.append({"k": a})
    for a, b in itertools.product(LEAVES_SMALL[:6], repeat=2):
        d1.append([a, b])
        d1.append({"": a, "\n": b})
    # depth 2
    d2: List[Any] = []
    for a in d1:
        d2.append([a])
        d2.append({"é": a})
    for a, b in itertools.product(d1, repeat=2):
        d2.append([a, b])
    for a, b in itertools.product(d1[:40], repeat=2):
        d2.append({"k": a, "\U0001F600": b})
    for v in d2:
        yield v
    # depth 3
    for a in d2[:: max(1, len(d2) // 20000)]:
        yield [a]
        yield {"k": a}


def job_grammar(col: Collector, seed: int, tier: str, shard: int, nshards: int, stride: int) -> None:
    batch: List[Any] = []
    n = 0
    for i, v in enumerate(grammar_values()):
        if (i // 1) % nshards != shard:
            continue
        n += 1
        if stride > 1 and (n % stride) != 0 and i > 400:
            continue
        batch.append(v)
        if len(batch) >= 400:
            record_batch(col, batch)
            batch = []
    if batch:
        record_batch(col, batch)
    if shard == 0 and stride == 1:
        col.exhaustive_parts.append("bounded JSON grammar depth<=3 (see grammar_values) enumerated completely")


def cases():
    return st.lists(json_values(15), min_size=1, max_size=20).map(lambda vs: {"values": vs})


def job_hyp(col: Collector, seed: int, tier: str, shard: int, n: int) -> None:
    def chk(case):
        o = check(case)
        col.evaluations += len(case["values"]) - 1
        from ..runner import digest

        for v in case["values"]:
            if is_nontrivial_json(v):
                col.nontrivial.add(digest(v))
        o.nontrivial = False
        return o

    hyp_run(col, seed * 1000 + shard, cases(), chk, n)


def job_deep(col: Collector, seed: int, tier: str) -> None:
    """seeded deep values around the fast backend's nesting limit (orjson refuses more than 254 levels and the
    library re-encodes with the stdlib): depth x container kind x leaf."""
    vals = [{"$deep": [n, kind, leaf]} for n in (100, 252, 253, 254, 255, 256, 300) for kind in ("list", "dict", "alt") for leaf in ("x", None, 2**63, "\u2028\n")]
    for i in range(0, len(vals), 12):
        case = {"values": vals[i : i + 12]}
        o = check(case)
        col.evaluations += len(case["values"]) - 1
        from ..runner import digest

        for v in case["values"]:
            col.nontrivial.add(digest(v))
        if o.failures:
            for v in case["values"]:
                o1 = check({"values": [v]})
                if o1.failures:
                    col.record({"values": [v]}, o1)
        else:
            o.nontrivial = False
            o.classes = ("deep-values",)
            col.record(case, o)
    col.exhaustive_parts.append("deep values: depth {100,252..256,300} x {list, dict, alternating} x 4 leaves through every encoder path")
    # documents a peer may send, around each decoder's own nesting limit (orjson: 1024; the stdlib: the interpreter's)
    depths = [200, 254, 255, 256, 512, 1000, 1022, 1023, 1024, 1025, 1026, 1030, 1100, 1200, 1300, 1400, 1450, 1600, 2500, 5000]
    for depth in depths:
        for kind in ("list", "dict", "alt"):
            for leaf in ("1", '"\u00e9"', "null", "18446744073709551615"):
                case = {"decode_deep": [depth, kind, leaf]}
                col.record(case, check(case))
    col.exhaustive_parts.append(f"decoding documents nested {depths} levels x 3 container kinds x 4 leaves, str and bytes, both backends")


EDGE_TEXTS = [" k", "k ", "\tk", "k\n", "\u00a0k", "k\u2028", "\u3000k\u3000", "\ufeffk", "k\ufeff", "a\ufeffb", " ", "", "\u0085k", "k\u200b", "\u2060k", "k\u00ad", "\u202ek", "  k  "]


def job_edges(col: Collector, seed: int, tier: str) -> None:
    """member names and strings that begin or end with white space or with zero-width / BOM-like characters, as
    first-level and nested members: nothing may trim, normalise or strip them on the way out or in"""
    values: List[Any] = []
    for t in EDGE_TEXTS:
        values += [{t: 1}, {t: t}, {"k": {t: [t]}}, t, [t, {t: None}]]
    values.append({t: i for i, t in enumerate(EDGE_TEXTS)})
    for i in range(0, len(values), 12):
        case = {"values": values[i : i + 12]}
        o = check(case)
        if o.failures:
            for v in case["values"]:
                o1 = check({"values": [v]})
                if o1.failures:
                    col.record({"values": [v]}, o1)
        else:
            o.nontrivial = True
            col.record(case, o)
        col.evaluations += len(case["values"]) - 1
    col.exhaustive_parts.append(f"{len(EDGE_TEXTS)} strings with white space / zero-width / BOM-like characters at their edges or inside, as first-level and nested member names and as values, through every encoder path, both decoders and the stdio reader")


def job_siblings(col: Collector, seed: int, tier: str) -> None:
    """runs of values that are containers of the same type and length but different content, encoded one after the
    other in the same backend process (each one garbage before the next is built): an encoder that remembers anything
    about an earlier value - by identity, by shape - shows here."""
    batches: List[List[Any]] = []
    for L in (1, 7, 8, 9, 16, 40):
        batches.append([[k * 100 + j for j in range(L)] for k in range(6)])
        batches.append([{f"k{j}": k * 100 + j for j in range(L)} for k in range(6)])
        batches.append([[{"row": [k, j, None]} for j in range(L)] for k in range(4)])
        batches.append([{"a": [k] * L, "b": {"n": [str(k)] * L}} for k in range(4)])
    for values in batches:
        # twice: the second pass meets whatever the first one left behind
        for _pass in range(2):
            o = check({"values": values})
            col.evaluations += len(values) - 1
            from ..runner import digest

            for v in values:
                col.nontrivial.add(digest(v))
            if o.failures:
                col.record({"values": values}, o)  # the run is the case: single values do not reproduce it
                return
            o.nontrivial = False
            o.classes = ("sibling-containers",)
            col.record({"values": values}, o)
    col.exhaustive_parts.append("sibling containers: lengths {1,7,8,9,16,40} x {int lists, int dicts, lists of rows, nested} x 4-6 siblings, each run twice in the same worker processes")


JOBS = {"edges": job_edges, "grammar": job_grammar, "hyp": job_hyp, "deep": job_deep, "siblings": job_siblings}
SERIAL = False


def jobs(tier: str):
    if tier == "quick":
        return [("grammar", {"shard": s, "nshards": 3, "stride": 8}) for s in range(3)] + [("hyp", {"shard": 0, "n": 150}), ("deep", {}), ("siblings", {}), ("edges", {})]
    return [("grammar", {"shard": s, "nshards": 3, "stride": 1}) for s in range(3)] + [("hyp", {"shard": 0, "n": 6000}), ("deep", {}), ("siblings", {}), ("edges", {})]


def shrink(signature: str, seed: int):
    return hyp_shrink(seed * 1000, cases(), check, signature, 300)
