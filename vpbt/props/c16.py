"""C16 - stdio client shutdown is bounded and leaves no child process behind (real processes)."""
from __future__ import annotations

import asyncio
import gc
import itertools
import json
import os
import shutil
import signal
import sys
import tempfile
import time
from typing import Any, Dict, List, Optional, Tuple

from hypothesis import strategies as st

from ..runner import Collector, Outcome, hyp_run

ID = "C16"
LEVEL = "fault_enumeration"
RULE = (
    "case = (real child process behaviour: well-behaved echo server, exits after k messages for k=0..3, ignores SIGTERM after signalling readiness, never reads stdin, floods stdout, closes stdout, "
    "closes stdin, slow start, ignores SIGTERM while flooding / while never reading, floods server-to-client requests; or a command that cannot be started: missing path, directory, non-executable file) x (exit path: normal, exception in body, outer CancelScope.cancel(), move_on_after around the "
    "whole context, cancellation arriving while the context is already shutting down, a 2..100 ms timeout around the context that fires while it is being entered) x (context entered as StdioClient, through stdio_client() or through the StdioTransport wrapper) x (moment: before the first message, request in flight, after a response); the product is enumerated (quick: every (behaviour, exit path) pair with rotating moments; thorough: full product x 3 jitters); "
    "measured by the harness: context exit duration <= 2 x 1 s grace + 3 s slack, no /proc entry (running or zombie) for the child at the very moment the context has been left and again after a <=1 s settle, open-fd count equal to the count before entry, a request "
    "pending when the child dies ends in an exception, an unstartable command makes entering raise; non-trivial = behaviour other than well-behaved or exit path other than normal; distinct = distinct cell"
    "; round 8: 6 more unstartable commands (missing paths named like scripts: .py .pyw .js .sh .exe, dangling .py link)"
    "; added in rounds 6-7 of the seeded changes: 10 unstartable commands (one per errno) + scripted sweep of 19 spawn failures; server LOG_LEVEL env x stderr-flooding children; session inside an outer deadline; logging at DEBUG"
)
ASSUMPTIONS = [
    "wall-clock test of a real-time property on the real OS: a timing failure is reported only if it reproduces in 3 of 3 re-executions, a leftover process in 2 of 3; an overloaded machine yields inconclusive (exit 2), never a violation",
    "children are tiny Python scripts written by the harness into a scratch directory that is removed at the end of the job",
]
EXHAUSTIVE = {"quick": False, "thorough": True}
META = {
    "text": "Fault enumeration with real child processes over (child behaviour x exit path x moment); the harness, not the library, measures exit time, leftover processes and file descriptors, with re-confirmation against scheduling noise.",
    "technique": "fault enumeration with real processes (finite product, fully enumerated in thorough); oracle = OS-level observation (/proc, fd table, wall clock)",
}
SERIAL = False

CHILD = r'''
import sys, os, json, time, signal
beh = sys.argv[1]
marker = sys.argv[2]
def out(obj):
    sys.stdout.write(json.dumps(obj) + "\n"); sys.stdout.flush()
if beh == "slow_start":
    time.sleep(0.5)
if beh.startswith("ignore_sigterm"):
    signal.signal(signal.SIGTERM, signal.SIG_IGN)
if "flood_stderr" in beh or beh == "chatty_stderr":
    # diagnostics on stderr: a few lines, or as fast as whatever is at the other end takes them
    import threading
    def _err():
        n_ = 0
        while beh != "chatty_stderr" or n_ < 5:
            try:
                sys.stderr.write("diagnostic " + "x" * 1000 + "\n"); sys.stderr.flush()
            except BaseException:
                time.sleep(0.05)
            n_ += 1
    threading.Thread(target=_err, daemon=True).start()
out({"jsonrpc": "2.0", "method": "notifications/message", "params": {"level": "info", "data": "ready"}})
if beh == "ignore_sigterm+flood":
    i = 0
    while True:
        try:
            out({"jsonrpc": "2.0", "method": "notifications/message", "params": {"level": "info", "data": "x" * 200, "i": i}})
        except BaseException:
            time.sleep(0.05)
        i += 1
if beh == "never_reads" or beh == "ignore_sigterm+never_reads":
    while True:
        time.sleep(0.2)
if beh == "flood_requests":
    # server-to-client requests (every message bears an id) as fast as the pipe takes them; never reads
    i = 0
    try:
        while True:
            out({"jsonrpc": "2.0", "id": i, "method": "ping"})
            i += 1
    except BaseException:
        os._exit(0)
if beh == "flood":
    i = 0
    try:
        while True:
            out({"jsonrpc": "2.0", "method": "notifications/message", "params": {"level": "info", "data": "x" * 200, "i": i}})
            i += 1
    except BaseException:
        os._exit(0)
if beh == "close_stdout":
    sys.stdout.flush(); os.close(1)
if beh == "close_stdin":
    os.close(0)
    while True:
        time.sleep(0.2)
limit = None
if beh.startswith("exit_at_"):
    limit = int(beh.split("_")[-1])
    if limit == 0:
        sys.exit(0)
n = 0
for line in sys.stdin:
    line = line.strip()
    if not line:
        continue
    try:
        msg = json.loads(line)
    except Exception:
        continue
    n += 1
    if limit is not None and n >= limit:
        sys.exit(0)
    if isinstance(msg, dict) and "id" in msg and msg.get("method") != "slow/never":
        try:
            out({"jsonrpc": "2.0", "id": msg["id"], "result": {"echo": msg.get("method")}})
        except BaseException:
            pass
if beh.startswith("ignore_sigterm"):
    while True:
        time.sleep(0.2)
'''

BEHAVIOURS = ["well_behaved", "exit_at_0", "exit_at_1", "exit_at_2", "exit_at_3", "ignore_sigterm", "never_reads", "flood", "close_stdout", "close_stdin", "slow_start",
              "ignore_sigterm+flood", "ignore_sigterm+never_reads", "flood_requests"]
SPAWN_FAIL = ["missing_path", "directory", "not_executable", "exec_format", "empty_executable", "path_through_file", "symlink_loop", "name_too_long", "dangling_symlink", "bad_interpreter",
              # commands that do not exist and are named like scripts (what a config says when the server was never installed)
              "missing_py", "missing_pyw", "missing_js", "missing_sh", "missing_exe", "dangling_py"]
EXITS = ["normal", "exception", "cancel", "move_on_after", "cancel_during_exit", "timeout_during_enter"]
ENTRIES = ["client", "function", "transport"]  # StdioClient, stdio_client(), StdioTransport
ENTER_DEADLINES = [0.002, 0.01, 0.03, 0.06, 0.1]  # a timeout around the context that fires while (or just after) the child is being started
MOMENTS = ["before_first", "in_flight", "after_response"]
GRACE_BOUND = 2 * 1.0 + 3.0

_SCRATCH: Optional[str] = None
_SCRATCH_PID: Optional[int] = None


def scratch() -> str:
    global _SCRATCH, _SCRATCH_PID
    if _SCRATCH is None or _SCRATCH_PID != os.getpid() or not os.path.isdir(_SCRATCH):
        # one directory per process: a forked pool worker must not share (and later remove) its parent's
        _SCRATCH_PID = os.getpid()
        _SCRATCH = tempfile.mkdtemp(prefix="vpbt_c16_")
        import atexit

        atexit.register(cleanup_scratch)  # the parent process (regression replays) cleans up when it ends
        with open(os.path.join(_SCRATCH, "child.py"), "w") as fh:
            fh.write(CHILD)
        with open(os.path.join(_SCRATCH, "notexec.txt"), "w") as fh:
            fh.write("#!/bin/sh\necho hi\n")
        os.chmod(os.path.join(_SCRATCH, "notexec.txt"), 0o644)
        os.mkdir(os.path.join(_SCRATCH, "adir"))
        # further commands that cannot be started, each failing with another errno
        with open(os.path.join(_SCRATCH, "garbage.bin"), "wb") as fb:
            fb.write(b"\x00\x01\x02 not a program in any known format\n" * 8)  # ENOEXEC
        open(os.path.join(_SCRATCH, "empty.bin"), "wb").close()  # ENOEXEC
        with open(os.path.join(_SCRATCH, "badinterp.sh"), "w") as fh:
            fh.write("#!/no/such/interpreter\necho hi\n")  # ENOENT (of the interpreter)
        for n_ in ("garbage.bin", "empty.bin", "badinterp.sh"):
            os.chmod(os.path.join(_SCRATCH, n_), 0o755)
        os.symlink("loop_b", os.path.join(_SCRATCH, "loop_a"))  # ELOOP
        os.symlink("loop_a", os.path.join(_SCRATCH, "loop_b"))
        os.symlink("nowhere", os.path.join(_SCRATCH, "dangling"))  # ENOENT
        os.symlink("nowhere.py", os.path.join(_SCRATCH, "dangling.py"))  # ENOENT
    return _SCRATCH


def cleanup_scratch() -> None:
    global _SCRATCH
    if _SCRATCH and _SCRATCH_PID == os.getpid() and os.path.isdir(_SCRATCH):
        shutil.rmtree(_SCRATCH, ignore_errors=True)
    _SCRATCH = None


def proc_state(pid: int) -> Optional[str]:
    try:
        with open(f"/proc/{pid}/stat") as fh:
            data = fh.read()
        return data.rsplit(")", 1)[1].split()[0]
    except (FileNotFoundError, ProcessLookupError, IndexError):
        return None


def find_marker(marker: str) -> List[int]:
    pids = []
    for d in os.listdir("/proc"):
        if not d.isdigit():
            continue
        try:
            with open(f"/proc/{d}/cmdline", "rb") as fh:
                if marker.encode() in fh.read():
                    pids.append(int(d))
        except Exception:
            continue
    return pids


def nfds() -> int:
    return len(os.listdir("/proc/self/fd"))


def run_cell(case: Dict[str, Any]) -> Dict[str, Any]:
    """Execute one cell once; returns raw observations."""
    import anyio

    from chuk_mcp.protocol.messages.send_message import send_message
    from chuk_mcp.transports.stdio.parameters import StdioParameters
    from chuk_mcp.transports.stdio.stdio_client import StdioClient

    beh, exit_path, moment = case["child"], case["exit"], case.get("moment", "before_first")
    d = scratch()
    marker = case.get("_marker") or f"vpbtmark{os.getpid()}x{int(time.time() * 1e6) % 10**9}"
    obs: Dict[str, Any] = {"marker": marker, "entered": False, "enter_exc": None, "pid": None, "pending": None, "first": None}

    if beh in SPAWN_FAIL:
        cmd = {"missing_path": os.path.join(d, "no-such-binary"), "directory": os.path.join(d, "adir"), "not_executable": os.path.join(d, "notexec.txt"),
               "exec_format": os.path.join(d, "garbage.bin"), "empty_executable": os.path.join(d, "empty.bin"), "path_through_file": os.path.join(d, "child.py", "server"),  # ENOTDIR
               "symlink_loop": os.path.join(d, "loop_a"), "name_too_long": os.path.join(d, "n" * 300), "dangling_symlink": os.path.join(d, "dangling"),
               "bad_interpreter": os.path.join(d, "badinterp.sh"),
               "missing_py": os.path.join(d, "no-such-server.py"), "missing_pyw": os.path.join(d, "no-such-server.pyw"), "missing_js": os.path.join(d, "no-such-server.js"),
               "missing_sh": os.path.join(d, "no-such-server.sh"), "missing_exe": os.path.join(d, "no-such-server.exe"), "dangling_py": os.path.join(d, "dangling.py")}[beh]
        params = StdioParameters(command=cmd, args=[marker])
    else:
        params = StdioParameters(command=sys.executable, args=[os.path.join(d, "child.py"), beh, marker], env=case.get("env"))

    async def main():
        gc.collect()
        obs["fds_before"] = nfds()
        t_exit0 = None
        try:
            if exit_path == "timeout_during_enter":
                scope = anyio.move_on_after(case.get("enter_deadline", 0.01))
            else:
                scope = anyio.CancelScope() if exit_path != "move_on_after" else anyio.move_on_after(case.get("deadline", 0.6))
            import contextlib

            # the application may run everything under a generous overall deadline of its own (never reached here)
            outer = anyio.fail_after(case["outer_deadline"]) if case.get("outer_deadline") else contextlib.nullcontext()
            with outer, scope:
                # the context may be the client class, the stdio_client() function or the transport wrapper
                entry = case.get("entry", "client")
                if entry == "function":
                    from chuk_mcp.transports.stdio.stdio_client import stdio_client

                    client = stdio_client(params)
                elif entry == "transport":
                    from chuk_mcp.transports.stdio.transport import StdioTransport

                    client = StdioTransport(params)
                else:
                    client = StdioClient(params)
                try:
                    async with client as entered_:
                        obs["entered"] = True
                        pids_ = find_marker(marker)
                        obs["pid"] = pids_[0] if pids_ else None
                        if entry == "function":
                            r, w = entered_
                        elif entry == "transport":
                            r, w = await entered_.get_streams()
                        else:
                            r, w = client.get_streams()
                        try:
                            if moment in ("in_flight", "after_response"):
                                if moment == "after_response":
                                    try:
                                        v = await send_message(r, w, "ping", timeout=1.5)
                                        obs["first"] = ("return", v)
                                    except BaseException as e:  # noqa
                                        obs["first"] = ("raise", type(e).__name__)
                                        if isinstance(e, asyncio.CancelledError):
                                            raise
                                if moment == "in_flight":
                                    async def pend():
                                        try:
                                            v = await send_message(r, w, "slow/never", timeout=1.2)
                                            obs["pending"] = ("return", v)
                                        except BaseException as e:  # noqa
                                            obs["pending"] = ("raise", type(e).__name__)
                                            if isinstance(e, asyncio.CancelledError):
                                                raise

                                    if exit_path == "normal":
                                        await pend()
                                    else:
                                        pt = asyncio.ensure_future(pend())
                                        await asyncio.sleep(0.15)
                                        obs["_pt"] = pt
                            else:
                                await asyncio.sleep(0.1 + case.get("jitter", 0.0))
                            if exit_path == "exception":
                                raise KeyError("body failed")
                            if exit_path == "cancel":
                                scope.cancel()
                                await asyncio.sleep(0)
                            if exit_path in ("move_on_after", "timeout_during_enter"):
                                await asyncio.sleep(5)
                            if exit_path == "cancel_during_exit":
                                # the body ends normally; the enclosing scope is cancelled a moment later,
                                # i.e. while the context is already shutting down (inside a grace period)
                                asyncio.get_running_loop().call_later(0.3 + case.get("jitter", 0.0), scope.cancel)
                        finally:
                            t_exit0 = time.time()
                            obs["t_exit0"] = t_exit0
                except KeyError:
                    obs["body_exc"] = True
                except BaseException as e:  # noqa
                    if not obs["entered"]:
                        obs["enter_exc"] = f"{type(e).__name__}: {str(e)[:120]}"
                    else:
                        obs["exit_exc"] = f"{type(e).__name__}: {str(e)[:120]}"
                        if isinstance(e, (asyncio.CancelledError,)):
                            raise
        finally:
            obs["t_exit1"] = time.time()
            # "leaves no child running or unreaped": looked at the very moment the context (or the scope around
            # a cancelled entry) has been left, before anything else gets to run
            obs["state_at_return"] = proc_state(obs["pid"]) if obs.get("pid") else None
            obs["strays_at_return"] = [(p_, proc_state(p_)) for p_ in find_marker(marker)]
        # the task's cancel-scope stack must be intact after leaving the context: an
        # enclosing scope must exit cleanly and a second client must work in the same task
        if obs["entered"]:
            try:
                with anyio.fail_after(20):
                    probe = StdioClient(StdioParameters(command=sys.executable, args=[os.path.join(d, "child.py"), "well_behaved", marker + "p"]))
                    async with probe:
                        r2, w2 = probe.get_streams()
                        v2 = await send_message(r2, w2, "ping", timeout=5)
                        obs["second_client"] = ("return", v2)
            except BaseException as e:  # noqa
                obs["second_client"] = ("raise", f"{type(e).__name__}: {str(e)[:160]}")
        pt = obs.pop("_pt", None)
        if pt is not None:
            pt.cancel()
            try:
                await pt
            except BaseException:
                pass
        # settle: child watcher reaps asynchronously
        deadline = time.time() + 1.0
        pid = obs["pid"]
        while time.time() < deadline:
            if pid is None or proc_state(pid) is None:
                break
            await asyncio.sleep(0.05)
        gc.collect()
        await asyncio.sleep(0.05)
        obs["state_after"] = proc_state(pid) if pid else None
        obs["fds_after"] = nfds()

    t0 = time.time()
    try:
        anyio.run(main)
    except BaseException as e:  # noqa
        obs["run_exc"] = f"{type(e).__name__}: {str(e)[:200]}"
    obs["wall"] = time.time() - t0
    strays = find_marker(marker)
    obs["strays"] = [(p, proc_state(p)) for p in strays]
    for p in strays:
        try:
            os.kill(p, signal.SIGKILL)
        except Exception:
            pass
    return obs


HANG_LIMIT = 40.0  # wall seconds after which a cell that has not come back is declared hung


def run_cell_guarded(case: Dict[str, Any]) -> Dict[str, Any]:
    """run_cell in a forked child of its own: a shutdown that never returns (and cannot be cancelled) must not take
    the whole job with it"""
    import json as _json
    import select

    marker = f"vpbtmark{os.getpid()}x{int(time.time() * 1e6) % 10**9}"
    rfd, wfd = os.pipe()
    pid = os.fork()
    if pid == 0:
        code = 0
        try:
            os.close(rfd)
            if "stderr" in case.get("child", ""):
                # where the child's stderr is passed through it would land on ours: this cell's process discards it
                dn = os.open(os.devnull, os.O_WRONLY)
                os.dup2(dn, 2)
                os.close(dn)
            obs = run_cell(dict(case, _marker=marker))
            data = _json.dumps(obs, default=repr).encode()
            while data:
                n = os.write(wfd, data)
                data = data[n:]
        except BaseException:  # noqa
            code = 3
        finally:
            os._exit(code)
    os.close(wfd)
    buf = b""
    deadline = time.time() + HANG_LIMIT
    hung = False
    while True:
        left = deadline - time.time()
        if left <= 0:
            hung = True
            break
        r, _, _ = select.select([rfd], [], [], min(left, 1.0))
        if r:
            chunk = os.read(rfd, 65536)
            if not chunk:
                break
            buf += chunk
    os.close(rfd)
    if hung:
        for p_ in [pid] + find_marker(marker):
            try:
                os.kill(p_, signal.SIGKILL)
            except Exception:
                pass
    try:
        os.waitpid(pid, 0)
    except Exception:
        pass
    if hung:
        return {"hung": True, "marker": marker, "entered": True, "pid": None}
    try:
        return _json.loads(buf.decode())
    except Exception:
        return {"cell_crashed": True, "marker": marker, "entered": False, "pid": None, "run_exc": "the cell's process ended without a report"}


def judge(case: Dict[str, Any], obs: Dict[str, Any]) -> List[Tuple[str, str, str]]:
    """-> [(signature, detail, class)] where class in {timing, process, logic}"""
    beh, exit_path, moment = case["child"], case["exit"], case.get("moment", "before_first")
    f: List[Tuple[str, str, str]] = []
    if obs.get("hung"):
        return [("leaving-the-context-hangs", f"{beh}/{exit_path}/{moment}: the cell had not finished {HANG_LIMIT:.0f}s later (bound for the exit itself: {GRACE_BOUND}s)", "process")]
    if beh in SPAWN_FAIL:
        if obs["entered"]:
            f.append(("unstartable-command-entered-the-context", f"{beh}", "logic"))
        return f
    if not obs["entered"]:
        if exit_path == "timeout_during_enter":
            # the timeout fired while the context was being entered: nothing may be left of the attempt
            left = [s_ for s_ in obs.get("strays_at_return", []) if s_[1] is not None] or [s_ for s_ in obs.get("strays", []) if s_[1] is not None]
            if left:
                f.append(("child-process-left-after-cancelled-entry", f"{beh}: timeout {case.get('enter_deadline')}s around the context fired during entry; child(ren) {left} still there", "process"))
            if obs.get("fds_after", 0) > obs.get("fds_before", 0):
                f.append(("file-descriptor-leak", f"{beh}/{exit_path}: {obs['fds_before']} -> {obs['fds_after']}", "process"))
            if obs.get("run_exc"):
                f.append(("leaving-the-context-raised-an-unrelated-exception", f"{beh}/{exit_path}: escaped the event loop: {obs['run_exc']}", "logic"))
            return f
        if exit_path == "move_on_after" and beh == "slow_start":
            return f
        f.append(("startable-command-failed-to-enter", f"{beh}: {obs.get('enter_exc')} {obs.get('run_exc')}", "logic"))
        return f
    if obs.get("state_at_return") is not None:
        f.append((f"child-process-not-gone-when-the-context-returns:{'ignore_sigterm' if beh.startswith('ignore_sigterm') else 'other'}:{exit_path}",
                  f"{beh}/{exit_path}/{moment}: pid {obs['pid']} in state {obs['state_at_return']!r} at the moment the context had been left", "process"))
    if obs.get("t_exit0") is not None:
        dur = obs["t_exit1"] - obs["t_exit0"]
        if dur > GRACE_BOUND:
            f.append(("context-exit-exceeds-bound", f"{beh}/{exit_path}/{moment}: exit took {dur:.2f}s > {GRACE_BOUND}s", "timing"))
    st_after = obs.get("state_after")
    strays = [s for s in obs.get("strays", []) if s[1] is not None]
    if st_after is not None or strays:
        kind = "zombie" if st_after == "Z" else "running"
        f.append((f"child-process-left-{kind}:{'ignore_sigterm' if beh.startswith('ignore_sigterm') else 'other'}:{exit_path}", f"{beh}/{exit_path}/{moment}: pid {obs['pid']} state {st_after!r} strays {strays}", "process"))
    if obs.get("fds_after", 0) > obs.get("fds_before", 0):
        f.append(("file-descriptor-leak", f"{beh}/{exit_path}/{moment}: {obs['fds_before']} -> {obs['fds_after']}", "process"))
    if obs.get("pending") and obs["pending"][0] == "return":
        f.append(("pending-request-got-a-fabricated-result", f"{beh}: {obs['pending']!r}", "logic"))
    if obs.get("first") and obs["first"][0] == "return" and beh in ("exit_at_0", "exit_at_1", "never_reads", "close_stdout", "close_stdin", "flood"):
        if not (isinstance(obs["first"][1], dict) and obs["first"][1].get("echo") == "ping"):
            f.append(("request-to-dead-child-got-a-fabricated-result", f"{beh}: {obs['first']!r}", "logic"))
    if obs.get("exit_exc") and not obs["exit_exc"].startswith("CancelledError"):
        f.append(("leaving-the-context-raised-an-unrelated-exception", f"{beh}/{exit_path}/{moment}: {obs['exit_exc']}", "logic"))
    if obs.get("run_exc"):
        f.append(("leaving-the-context-raised-an-unrelated-exception", f"{beh}/{exit_path}/{moment}: escaped the event loop: {obs['run_exc']}", "logic"))
    sc = obs.get("second_client")
    if sc is not None and sc[0] != "return":
        f.append(("client-unusable-after-a-previous-context-in-the-same-task", f"{beh}/{exit_path}/{moment}: second client: {sc[1]}", "logic"))
    if exit_path == "exception" and not obs.get("body_exc"):
        f.append(("exception-in-body-swallowed", f"{beh}/{moment}: {obs.get('exit_exc')}", "logic"))
    return f


SPAWN_ERRORS = ["EAGAIN", "ENOMEM", "EMFILE", "ENFILE", "ENOEXEC", "ETXTBSY", "ENOTDIR", "ELOOP", "EIO", "EPERM", "EACCES", "ENOENT", "E2BIG", "ENAMETOOLONG", "EINVAL", "ENOSPC",
                "ValueError", "RuntimeError", "TypeError"]


def check_spawn_error(case: Dict[str, Any]) -> Outcome:
    """the operating system refuses to start the command (every errno a spawn can fail with; scripted, virtual time):
    entering the context raises - through the client class, the stdio_client() function and the transport wrapper -
    and does so within a bounded time"""
    import errno as _errno

    import anyio

    from chuk_mcp.transports.stdio.parameters import StdioParameters

    from ..vclock import run_virtual

    out = Outcome(nontrivial=True, classes=(f"spawn-error:{case['spawn_error']}", f"entry:{case.get('entry', 'client')}", "scripted"))
    name = case["spawn_error"]
    calls = {"n": 0}

    async def refuse(command, **kw):
        calls["n"] += 1
        if name in ("ValueError", "RuntimeError", "TypeError"):
            raise {"ValueError": ValueError, "RuntimeError": RuntimeError, "TypeError": TypeError}[name]("embedded null byte" if name == "ValueError" else "cannot start")
        no = getattr(_errno, name)
        raise OSError(no, os.strerror(no), str(command[0]) if isinstance(command, (list, tuple)) else str(command))

    obs: Dict[str, Any] = {"entered": False, "exc": None, "t": None}

    async def main():
        import asyncio as _a

        params = StdioParameters(command="/opt/server/bin/mcp-server", args=["--stdio"])
        entry = case.get("entry", "client")
        if entry == "function":
            from chuk_mcp.transports.stdio.stdio_client import stdio_client

            client = stdio_client(params)
        elif entry == "transport":
            from chuk_mcp.transports.stdio.transport import StdioTransport

            client = StdioTransport(params)
        else:
            from chuk_mcp.transports.stdio.stdio_client import StdioClient

            client = StdioClient(params)
        t0 = _a.get_running_loop().time()
        try:
            async with client:
                obs["entered"] = True
                obs["t"] = _a.get_running_loop().time() - t0
        except BaseException as e:  # noqa
            if obs["t"] is None:
                obs["t"] = _a.get_running_loop().time() - t0
            obs["exc"] = f"{type(e).__name__}: {e}"

    orig = anyio.open_process
    anyio.open_process = refuse  # type: ignore
    try:
        run_virtual(main)
    except Exception as e:  # noqa
        out.fail("spawn-error-harness-raised", f"{type(e).__name__}: {e}")
        return out
    finally:
        anyio.open_process = orig  # type: ignore
    if obs["entered"]:
        out.fail("unstartable-command-entered-the-context", f"{name} via {case.get('entry', 'client')}: open_process refused {calls['n']} time(s), the context was entered all the same after {obs['t']}s")
    elif obs["t"] is not None and obs["t"] > 60.0:
        out.fail("unstartable-command-reported-too-late", f"{name}: raised only after {obs['t']}s")
    return out


def check(case: Dict[str, Any]) -> Outcome:
    if "spawn_error" in case:
        return check_spawn_error(case)
    out = Outcome()
    beh, exit_path = case["child"], case["exit"]
    out.nontrivial = beh != "well_behaved" or exit_path != "normal"
    out.classes = (f"child:{beh}", f"exit:{exit_path}", f"moment:{case.get('moment', 'before_first')}", f"entry:{case.get('entry', 'client')}") + (("inside-an-outer-deadline",) if case.get("outer_deadline") else ()) + ((("server-env:" + ",".join(f"{k_}={v_}" for k_, v_ in sorted(case["env"].items()))),) if case.get("env") else ())
    obs = run_cell_guarded(case)
    fails = judge(case, obs)
    if not fails:
        return out
    # re-confirmation against scheduling noise
    confirmed: Dict[str, List[str]] = {}
    runs = [fails]
    for _ in range(2):
        runs.append(judge(case, run_cell_guarded(case)))
    for sig, detail, cls in fails:
        hits = sum(1 for r in runs if any(s == sig for s, _, _ in r))
        need = 3 if cls == "timing" else 2
        if hits >= need:
            out.fail(sig, detail + f" (reproduced {hits}/3)")
    if not out.failures:
        out.classes = out.classes + ("flaky-observation-not-confirmed",)
    return out


def cells(full: bool) -> List[Dict[str, Any]]:
    cs: List[Dict[str, Any]] = []
    i = 0
    for beh in BEHAVIOURS:
        for ex in EXITS:
            moments = MOMENTS if full else [MOMENTS[i % 3]]
            if ex == "timeout_during_enter":
                dl = ENTER_DEADLINES if full else [ENTER_DEADLINES[i % len(ENTER_DEADLINES)], ENTER_DEADLINES[(i + 2) % len(ENTER_DEADLINES)]]
                for d_ in dl:
                    cs.append({"child": beh, "exit": ex, "moment": "before_first", "enter_deadline": d_})
                i += 1
                continue
            for mo in moments:
                cs.append({"child": beh, "exit": ex, "moment": mo})
            i += 1
    for j, c_ in enumerate(cs):
        c_["entry"] = ENTRIES[j % len(ENTRIES)]
    if full:
        # and every (behaviour, exit path) through each kind of context at one moment
        for beh in BEHAVIOURS:
            for ex in EXITS:
                if ex == "timeout_during_enter":
                    continue
                for en in ENTRIES[1:]:
                    cs.append({"child": beh, "exit": ex, "moment": "before_first", "entry": en})
    else:
        for ex in ("normal", "exception", "cancel", "move_on_after", "cancel_during_exit"):
            for en in ENTRIES[1:]:
                cs.append({"child": "ignore_sigterm", "exit": ex, "moment": "before_first", "entry": en})
                cs.append({"child": "well_behaved", "exit": ex, "moment": "after_response", "entry": en})
    for k_, beh in enumerate(SPAWN_FAIL):
        for en in (ENTRIES if full else [ENTRIES[k_ % 3], ENTRIES[(k_ + 1) % 3]]):
            cs.append({"child": beh, "exit": "normal", "moment": "before_first", "entry": en})
    # what the child does with its stderr x how the client was told to treat it (LOG_LEVEL / LOGGING_LEVEL in the server's environment)
    k_ = 0
    for beh in ("flood_stderr", "ignore_sigterm+flood_stderr", "chatty_stderr"):
        for env in (None, {"LOG_LEVEL": "ERROR"}, {"LOGGING_LEVEL": "CRITICAL"}, {"LOG_LEVEL": "error", "PATH": "/usr/bin:/bin"}, {"LOG_LEVEL": "DEBUG"}):
            for ex in (("normal", "exception", "cancel", "move_on_after", "cancel_during_exit") if full else ("normal", "cancel", "exception")):
                k_ += 1
                c_ = {"child": beh, "exit": ex, "moment": MOMENTS[k_ % 3], "entry": ENTRIES[k_ % 3]}
                if env:
                    c_["env"] = env
                cs.append(c_)
    # the whole session inside an outer deadline the application set for itself (far away): exits stay as prompt as without
    k_ = 0
    for beh in ("ignore_sigterm", "ignore_sigterm+flood", "well_behaved", "never_reads"):
        for ex in (("normal", "exception", "cancel", "move_on_after") if full else ("normal", "exception")):
            k_ += 1
            cs.append({"child": beh, "exit": ex, "moment": MOMENTS[k_ % 3], "entry": ENTRIES[k_ % 3], "outer_deadline": [12.0, 20.0][k_ % 2]})
    # make sure the classic combination is always there
    extra = {"child": "ignore_sigterm", "exit": "cancel", "moment": "before_first"}
    if extra not in cs:
        cs.append(extra)
    extra3 = {"child": "ignore_sigterm", "exit": "cancel_during_exit", "moment": "before_first"}
    if extra3 not in cs:
        cs.append(extra3)
    extra2 = {"child": "ignore_sigterm", "exit": "move_on_after", "moment": "in_flight"}
    if extra2 not in cs:
        cs.append(extra2)
    return cs


def job_cells(col: Collector, seed: int, tier: str, shard: int, nshards: int, full: bool, jitters: int = 1) -> None:
    try:
        cs = cells(full)
        for j in range(jitters):
            for i, c in enumerate(cs):
                if i % nshards != shard:
                    continue
                case = dict(c)
                if j:
                    case["jitter"] = 0.013 * ((seed + j * 7 + i) % 9)
                    case["deadline"] = 0.3 + 0.1 * ((seed + j + i) % 5)
                col.record(case, check(case))
        if shard == 0 and full:
            col.exhaustive_parts.append(f"{len(BEHAVIOURS)} behaviours x {len(EXITS)} exit paths x {len(MOMENTS)} moments + {len(SPAWN_FAIL)} unstartable commands, x {jitters} jitter settings")
    finally:
        cleanup_scratch()


def job_spawn_errors(col: Collector, seed: int, tier: str) -> None:
    for name in SPAWN_ERRORS:
        for en in ENTRIES:
            case = {"spawn_error": name, "entry": en}
            col.record(case, check(case))
    col.exhaustive_parts.append(f"{len(SPAWN_ERRORS)} ways the operating system refuses to start the command x 3 kinds of context (scripted)")


JOBS = {"cells": job_cells, "spawn_errors": job_spawn_errors}


def jobs(tier: str):
    if tier == "quick":
        return [("cells", {"shard": s, "nshards": 16, "full": False}) for s in range(16)] + [("spawn_errors", {})]
    return [("cells", {"shard": s, "nshards": 16, "full": True, "jitters": 3}) for s in range(16)] + [("spawn_errors", {})]
