"""Atheris (coverage-guided) fuzz targets with the semantic oracle inside the target.

Each target exposes `evaluate(data: bytes) -> Optional[Tuple[str, str, dict]]` returning
(signature, detail, replay case) when the oracle is violated.  `TestOneInput` raises on a
violation so libFuzzer saves the input; the job re-evaluates the saved input in a clean
process to obtain the signature.  All state is rebuilt per iteration (no leakage)."""
from __future__ import annotations

import asyncio
import json
from typing import Any, Dict, List, Optional, Tuple

_LOOP: Optional[asyncio.AbstractEventLoop] = None


def loop() -> asyncio.AbstractEventLoop:
    global _LOOP
    if _LOOP is None or _LOOP.is_closed():
        _LOOP = asyncio.new_event_loop()
        asyncio.set_event_loop(_LOOP)
    return _LOOP


def split_input(data: bytes) -> Tuple[bytes, List[int]]:
    """first byte n (0..7) = number of cuts, next 2n bytes = cut positions, rest = payload."""
    if not data:
        return b"", []
    n = data[0] % 8
    pos = data[1 : 1 + 2 * n]
    payload = data[1 + 2 * n :]
    cuts = []
    for i in range(0, len(pos) - 1, 2):
        if payload:
            cuts.append((pos[i] * 256 + pos[i + 1]) % len(payload))
    return payload, sorted(set(c for c in cuts if c > 0))


def chunks(payload: bytes, cuts: List[int]) -> List[bytes]:
    p = [0] + cuts + [len(payload)]
    return [payload[a:b] for a, b in zip(p, p[1:]) if b > a]


# --------------------------------------------------------------------------- C05: stdio line framing

class _AIter:
    def __init__(self, items):
        self.items = list(items)

    def __aiter__(self):
        return self

    async def __anext__(self):
        if not self.items:
            raise StopAsyncIteration
        return self.items.pop(0)


def _stdio_lines(payload_chunks: List[bytes]) -> Tuple[List[Any], Optional[str]]:
    from chuk_mcp.transports.stdio.parameters import StdioParameters
    from chuk_mcp.transports.stdio.stdio_client import StdioClient

    c = StdioClient(StdioParameters(command="/bin/true", args=[]))
    got: List[Any] = []

    async def rec(data):
        got.append(data)

    c._process_message_data = rec  # type: ignore

    class P:
        stdout = _AIter(payload_chunks)
        stdin = None

    c.process = P()  # type: ignore
    err = None
    try:
        loop().run_until_complete(c._stdout_reader())
    except BaseException as e:  # noqa
        err = f"{type(e).__name__}: {e}"
    return got, err


def stdio_reference(payload: bytes) -> List[Any]:
    out = []
    for raw in payload.split(b"\n")[:-1]:
        try:
            t = raw.decode("utf-8").strip()
        except UnicodeDecodeError:
            continue
        if not t:
            continue
        try:
            out.append(json.loads(t))
        except Exception:
            continue
    return out


def _eq(a: Any, b: Any) -> bool:
    """type-strict equality, except that integers outside the 64-bit range (outside every
    listed property's domain) may come back as the nearest float (orjson does that)."""
    from ..jsonrpc_ref import strict_eq

    if isinstance(a, (list, tuple)) and isinstance(b, (list, tuple)):
        return len(a) == len(b) and all(_eq(x, y) for x, y in zip(a, b))
    if isinstance(a, dict) and isinstance(b, dict):
        return set(a) == set(b) and all(_eq(a[k], b[k]) for k in a)
    for x, y in ((a, b), (b, a)):
        if isinstance(x, int) and not isinstance(x, bool) and not (-(2**63) <= x <= 2**64 - 1) and isinstance(y, float):
            try:
                return float(x) == y
            except OverflowError:
                return y in (float("inf"), float("-inf"))
    if isinstance(a, float) and isinstance(b, float) and a != a and b != b:
        return True
    return strict_eq(a, b)


def eval_stdio(data: bytes):
    payload, cuts = split_input(data)
    if len(payload) > 4096:
        return None
    whole, e1 = _stdio_lines([payload])
    parts, e2 = _stdio_lines(chunks(payload, cuts))
    case = {"stream": payload, "cuts": cuts, "as_str": False}
    if e1 or e2:
        return ("stdio-reader-raised", str(e1 or e2), case)
    if not _eq(whole, parts):
        return ("stdio-framing-depends-on-chunking", f"cuts={cuts} whole={whole!r} chunked={parts!r}"[:500], case)
    ref = stdio_reference(payload)
    # nan parses under stdlib json; compare with nan-tolerant equality
    if not _eq(whole, ref):
        return ("stdio-framing-differs-from-reference", f"got={whole!r} ref={ref!r}"[:500], case)
    return None


# --------------------------------------------------------------------------- C11: SSE body text

def _http_sse(text: str) -> Tuple[List[Any], Optional[str]]:
    from chuk_mcp.transports.http.parameters import StreamableHTTPParameters
    from chuk_mcp.transports.http.transport import StreamableHTTPTransport

    t = StreamableHTTPTransport(StreamableHTTPParameters(url="http://test.invalid/mcp"))
    got: List[Any] = []

    async def rec(data):
        got.append(data)

    t._route_response = rec  # type: ignore
    err = None
    try:
        loop().run_until_complete(t._process_sse_text(text, "rid"))
    except BaseException as e:  # noqa
        err = f"{type(e).__name__}: {e}"
    return got, err


def sse_reference(text: str, flush_tail: bool, blank_is_message: bool = False) -> List[Any]:
    from ..sse_ref import parse_events

    out = []
    for etype, d in parse_events(text, flush_tail):
        t = etype.strip()
        if blank_is_message and t == "":
            t = "message"  # an event type made of whitespace only: the library treats it as absent
        if t not in ("message", "response"):
            continue
        if not d.strip().startswith("{"):
            continue
        try:
            out.append(json.loads(d.strip()))
        except Exception:
            continue
    return out


def eval_sse_text(data: bytes):
    try:
        text = data.decode("utf-8")
    except UnicodeDecodeError:
        return None
    if text.startswith("\ufeff") or len(text) > 4096:
        return None
    got, err = _http_sse(text)
    case = {"text": text}
    if err:
        return ("sse-text-parser-raised", err, case)
    refs = [sse_reference(text, ft, bm) for ft in (False, True) for bm in (False, True)]
    a = refs[0]
    if not any(_eq(got, r) for r in refs):
        return ("sse-framing-differs-from-reference", f"got={got!r} ref={a!r} text={text!r}"[:600], case)
    return None


# --------------------------------------------------------------------------- C12: SSE stream chunking

def _sse_stream(text_chunks: List[str]) -> Tuple[List[Any], Optional[str]]:
    from chuk_mcp.transports.sse.parameters import SSEParameters
    from chuk_mcp.transports.sse.transport import SSETransport

    t = SSETransport(SSEParameters(url="http://test.invalid"))
    got: List[Any] = []

    async def ep(data):
        got.append(("endpoint", data))
        t._message_url = "http://test.invalid/x"

    async def msg(data):
        got.append(("message", data))

    t._handle_endpoint_event = ep  # type: ignore
    t._handle_message_event = msg  # type: ignore

    class R:
        def aiter_text(self):
            return _AIter(text_chunks)

    t._sse_response = R()  # type: ignore
    err = None
    try:
        loop().run_until_complete(t._process_sse_stream())
    except BaseException as e:  # noqa
        err = f"{type(e).__name__}: {e}"
    return got, err


def eval_sse_stream(data: bytes):
    payload, cuts = split_input(data)
    try:
        text = payload.decode("utf-8")
    except UnicodeDecodeError:
        return None
    if len(text) > 4096:
        return None
    # chunk on character boundaries (aiter_text delivers decoded text)
    ccuts = sorted(set(c % len(text) for c in cuts if len(text) > 1 and c % len(text)))
    p = [0] + ccuts + [len(text)]
    parts = [text[a:b] for a, b in zip(p, p[1:]) if b > a]
    whole, e1 = _sse_stream([text])
    chunked, e2 = _sse_stream(parts)
    case = {"text": text, "cuts": ccuts}
    if e1 or e2:
        return ("sse-stream-parser-raised", str(e1 or e2), case)
    if whole != chunked:
        return ("sse-stream-depends-on-chunking", f"cuts={ccuts} whole={whole!r} chunked={chunked!r}"[:600], case)
    return None


TARGETS = {"stdio": eval_stdio, "sse_text": eval_sse_text, "sse_stream": eval_sse_stream}

SEEDS = {
    "stdio": [b"\x02\x00\x05\x00\x30" + '{"jsonrpc":"2.0","method":"n/\u00e9","params":{"k":"\U0001F600\u2028"}}\r\n{"jsonrpc":"2.0","id":1,"result":{}}\n'.encode(),
              b"\x00" + b'junk\n{"jsonrpc":"2.0","id":"a","result":{"a":"\\n"}}\r\n\xff\xfe\n'],
    "sse_text": ['event: message\ndata: {"jsonrpc":"2.0","id":1,"result":{}}\n\n'.encode(), 'data:{"jsonrpc":"2.0","method":"n"}\r\n\r\n: c\nid: 1\nretry: 5\nevent:message\ndata: {\ndata:  "jsonrpc":"2.0","method":"x"}\n\n'.encode()],
    "sse_stream": [b"\x01\x00\x10" + 'event: endpoint\ndata: /messages/?session_id=a\n\nevent: message\ndata: {"jsonrpc":"2.0","method":"n","params":{"t":"\u00e9"}}\r\n\r\n'.encode()],
}
