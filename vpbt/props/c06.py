"""C06 - stdio outbound framing: one message, one line, in order, content preserved."""
from __future__ import annotations

import asyncio
import json
from typing import Any, Dict, List, Optional, Tuple

from hypothesis import strategies as st

from ..fakeproc import FakeProcess, patched_open_process, stdio_params
from ..jsongen import is_nontrivial_json, json_objects, json_text, json_values, request_ids
from ..jsonrpc_ref import first_diff, strict_eq
from ..runner import Collector, Outcome, hyp_run, hyp_shrink
from ..vclock import run_virtual

ID = "C06"
LEVEL = "exploration"
RULE = (
    "case = sequence (<=12) of outbound items sent on the write stream of an entered StdioClient (scripted child): typed message (each of the four envelope classes and the unified class), "
    "plain dict, pre-serialised single-line JSON string (stdlib, both ensure_ascii modes, both separator styles), or an unserialisable object (object(), dict holding a set / bytes / lambda, "
    "self-referential list, object whose model_dump_json raises, a dict nested 3000 levels deep) at any position; payloads over JSON values with \\n, \\r, U+2028, NUL, quotes, astral characters, nested nulls, 64-bit ints; "
    "optionally server batches arriving d scheduler turns into the write of chosen items (the reader task then writes a -32600 rejection on the same stdin) and payloads beyond 64 KiB / 64-bit ints / deep nesting; "
    "or the whole sequence queued at once (burst), incl. bursts whose frames add up to more than 64 KiB; then the write stream is closed; oracle on the bytes recorded at the child's stdin: ends with LF, exactly one line per serialisable item in order, no raw CR/LF inside a line, each line "
    "is UTF-8 JSON equal (type-strict) to the item with absent optional members omitted, unserialisable items leave no bytes, stdin closed after the write stream closes; "
    "non-trivial = an unserialisable item followed by a serialisable one, or a payload with a raw line-break character, or a nested null; distinct = distinct sequence"
    "; round 8: one shard and the enumeration also run in a fresh interpreter with the built-in model base (MCP_FORCE_FALLBACK=1); the same typed object changed in place and sent again (with nothing, a dict, a string, junk or another typed message in between)"
    "; added in rounds 6-7 of the seeded changes: child not reading stdin for 0.01..600 s (frame untouched or queued by the pipe); per-request streams registered and unanswered at close; logging at DEBUG"
)
ASSUMPTIONS = [
    "pre-serialised strings are single-line JSON (the documented accepted shape); they must pass through unchanged as a value",
    "scripted child process; bytes are what process.stdin.send received",
]
EXHAUSTIVE = {"quick": False, "thorough": False}
META = {
    "text": "Generated outbound sequences through the real writer task against a byte-level reference (one line per serialisable item, value equality, closure of stdin).",
    "technique": "Hypothesis sequences over StdioClient with a scripted process; oracle = byte-level NDJSON reference + type-strict value equality",
}

BAD_KINDS = ["object", "set_in_dict", "bytes_in_dict", "lambda_in_dict", "self_ref_list", "raising_model", "too_deep", "nan_is_fine_marker"]


class _RaisingModel:
    def model_dump_json(self, **kw):
        raise RuntimeError("cannot serialise")

    def model_dump(self, **kw):
        raise RuntimeError("cannot serialise")


def make_bad(kind: str) -> Any:
    if kind == "object":
        return object()
    if kind == "set_in_dict":
        return {"jsonrpc": "2.0", "method": "x", "params": {"s": {1, 2}}}
    if kind == "bytes_in_dict":
        return {"jsonrpc": "2.0", "method": "x", "params": {"b": b"\xff"}}
    if kind == "lambda_in_dict":
        return {"jsonrpc": "2.0", "method": "x", "params": {"f": (lambda: 1)}}
    if kind == "too_deep":
        # nested beyond what any encoder here can walk (and beyond what repr() can print)
        d: Dict[str, Any] = {}
        cur = d
        for _ in range(3000):
            cur["k"] = {}
            cur = cur["k"]
        return {"jsonrpc": "2.0", "method": "x", "params": d}
    if kind == "self_ref_list":
        a: List[Any] = []
        a.append(a)
        return {"jsonrpc": "2.0", "method": "x", "params": {"l": a}}
    return _RaisingModel()


def expand(w: Any) -> Any:
    """{"$big": n} -> a string of n characters; {"$deep": n} -> an object nested n levels; {"$int": "..."} -> that integer"""
    if isinstance(w, dict):
        # (a generated payload may by chance contain one of these keys with some other value: left as it is)
        if set(w.keys()) == {"$big"} and type(w["$big"]) is int and 0 <= w["$big"] <= 10**6:
            return ("x\u00e9" * (w["$big"] // 2 + 1))[: w["$big"]]
        if set(w.keys()) == {"$deep"} and type(w["$deep"]) is int and 0 <= w["$deep"] <= 2000:
            d: Dict[str, Any] = {}
            cur = d
            for _ in range(w["$deep"]):
                cur["k"] = {}
                cur = cur["k"]
            return d
        if set(w.keys()) == {"$int"} and isinstance(w["$int"], str) and w["$int"].lstrip("-").isdigit() and w["$int"].isascii():
            return int(w["$int"])
        return {k: expand(v) for k, v in w.items()}
    if isinstance(w, list):
        return [expand(x) for x in w]
    return w


def build_item(spec: List[Any]) -> Tuple[Any, Optional[Any]]:
    spec = [spec[0]] + [expand(x) for x in spec[1:]]
    return _build_item(spec)


def _build_item(spec: List[Any]) -> Tuple[Any, Optional[Any]]:
    """(object to send, expected decoded value or None when unserialisable)."""
    import chuk_mcp.protocol.messages.json_rpc_message as J

    kind = spec[0]
    if kind == "typed":
        cls, w = spec[1], spec[2]
        if cls == "request":
            return J.JSONRPCRequest(id=w["id"], method=w["method"], params=w.get("params")), w
        if cls == "notification":
            return J.JSONRPCNotification(method=w["method"], params=w.get("params")), w
        if cls == "response":
            return J.JSONRPCResponse(id=w["id"], result=w["result"]), w
        if cls == "error":
            return J.JSONRPCError(id=w["id"], error=w["error"]), w
        return J.JSONRPCMessage(**w), w
    if kind == "dict":
        return spec[1], spec[1]
    if kind == "str":
        w, ea, compact = spec[1], spec[2], spec[3]
        return json.dumps(w, ensure_ascii=ea, separators=(",", ":") if compact else None), w
    if kind == "bad":
        return make_bad(spec[1]), None
    raise ValueError(kind)


REAL_SINK = r'''
import sys, os
out = open(sys.argv[1], "wb")
while True:
    b = os.read(0, 65536)
    if not b:
        break
    out.write(b); out.flush()
out.close()
open(sys.argv[1] + ".eof", "w").close()
'''


def _run_real(built, state: Dict[str, Any]) -> None:
    """the same sequence through a real child that copies its stdin to a file"""
    import os
    import shutil
    import sys
    import tempfile
    import time

    import anyio as _anyio

    from chuk_mcp.transports.stdio.parameters import StdioParameters
    from chuk_mcp.transports.stdio.stdio_client import StdioClient

    d = tempfile.mkdtemp(prefix="vpbt_c06_")
    try:
        with open(os.path.join(d, "sink.py"), "w") as fh:
            fh.write(REAL_SINK)
        outp = os.path.join(d, "out.bin")

        async def main():
            async with StdioClient(StdioParameters(command=sys.executable, args=[os.path.join(d, "sink.py"), outp])) as client:
                _r, w = client.get_streams()
                for obj, _ in built:
                    await w.send(obj)
                await _anyio.sleep(0.15)
                state["closed_before"] = os.path.exists(outp + ".eof")
                await w.aclose()
                for _ in range(100):
                    if os.path.exists(outp + ".eof"):
                        break
                    await _anyio.sleep(0.02)
                state["closed_after"] = os.path.exists(outp + ".eof")

        _anyio.run(main)
        state["data"] = open(outp, "rb").read() if os.path.exists(outp) else b""
    finally:
        shutil.rmtree(d, ignore_errors=True)


BATCH_LINE = b'[{"jsonrpc":"2.0","method":"notifications/message","params":{"level":"info","data":1}}]\n'


def _inbound(case: Dict[str, Any]) -> Dict[int, int]:
    """item index -> scheduler turns after handing the item to the writer at which a server batch arrives (-1: just before)"""
    return {(e if isinstance(e, int) else e[0]): (-1 if isinstance(e, int) else e[1]) for e in case.get("inbound", [])}


def check(case: Dict[str, Any]) -> Outcome:
    from chuk_mcp.transports.stdio.stdio_client import StdioClient

    out = Outcome()
    items: List[List[Any]] = case["items"]
    built: List[Tuple[Any, Optional[Any]]] = []
    mutate: Dict[int, Any] = {}
    for k0, s in enumerate(items):
        if s[0] == "resend":
            # the application keeps one message object, changes it and sends it again (a progress notification with a new value,
            # a request re-issued with other arguments): what reaches the child must be the object as it was when sent
            j = s[1] % max(1, k0)
            if k0 and items[j][0] == "typed" and items[j][1] in ("request", "notification") and built[j][1] is not None:
                w2 = dict(built[j][1])
                if not case.get("burst") and not case.get("real") and not case.get("stall"):  # (only when the earlier send is certain to have been serialised)
                    w2["params"] = expand(s[2])
                    mutate[k0] = w2["params"]
                built.append((built[j][0], w2))
            else:
                w2 = {"jsonrpc": "2.0", "method": "resend/none", "params": expand(s[2])}
                built.append((w2, w2))
        else:
            built.append(build_item(s))
    procs: List[FakeProcess] = []
    state: Dict[str, Any] = {}

    async def main():
        with patched_open_process(procs):
            client = StdioClient(stdio_params())
            async with client:
                _r, w = client.get_streams()
                inbound = _inbound(case)
                if inbound:
                    client.set_protocol_version("2025-06-18")  # batches from the server are answered with -32600 on stdin
                stall = case.get("stall")
                for j_ in range(case.get("pending_streams", 0)):
                    # the application registered per-request streams for requests nobody has answered (yet)
                    client.new_request_stream(f"pending-{j_}")
                for k_, (obj, _) in enumerate(built):
                    if inbound.get(k_) == -1:
                        procs[0].stdout.feed(BATCH_LINE)
                    if stall and stall[0] == k_:
                        # the child stops reading its stdin for a while (busy, suspended by its supervisor): writes wait
                        g = asyncio.Event()
                        procs[0].stdin.stall_mode = stall[2]
                        procs[0].stdin.gate = g
                        asyncio.get_running_loop().call_later(stall[1], g.set)
                    if k_ in mutate:
                        await asyncio.sleep(0.01)  # (the earlier send of this object has been taken and serialised by now)
                        obj.params = json.loads(json.dumps(mutate[k_]))
                    if case.get("burst"):
                        # the application queues everything at once; the writer task finds a backlog when it wakes
                        w.send_nowait(obj)
                        continue
                    await w.send(obj)
                    if inbound.get(k_, -1) >= 0:
                        # the server's batch arrives d scheduler turns into the write of item k
                        for _y in range(inbound[k_]):
                            await asyncio.sleep(0)
                        procs[0].stdout.feed(BATCH_LINE)
                await asyncio.sleep(0.05 + (stall[1] if stall else 0))
                state["closed_before"] = procs[0].stdin.closed
                await w.aclose()
                await asyncio.sleep(0.05)
                state["closed_after"] = procs[0].stdin.closed
                state["data"] = procs[0].stdin.data

    try:
        if case.get("real"):
            _run_real(built, state)
        else:
            run_virtual(main)
    except Exception as e:  # noqa
        out.fail("stdio-client-raised", f"{type(e).__name__}: {e}")
        return out

    expected = [w for _, w in built if w is not None]
    bad_then_good = any(b[1] is None and any(x[1] is not None for x in built[i + 1 :]) for i, b in enumerate(built))
    raw_break = any(w is not None and len(json.dumps(w)) < 20000 and any(c in json.dumps(w, ensure_ascii=False) for c in ("\\n", "\\r", " ", "\u0085")) for _, w in built)
    nested_null = any(w is not None and "null" in json.dumps(w)[:20000] for _, w in built)
    out.nontrivial = bad_then_good or raw_break or nested_null or bool(case.get("inbound"))
    if case.get("burst") or mutate:
        out.nontrivial = True
    if case.get("stall") and case["stall"][0] < len(built):
        out.nontrivial = True
    out.classes = (("backend:fallback",) if case.get("backend") == "fallback" else ()) + (("same-object-changed-and-sent-again",) if mutate else ()) + (("unanswered-request-streams-registered",) if case.get("pending_streams") else ()) + (("burst",) if case.get("burst") else ()) + ((f"child-not-reading:{case['stall'][2]}:{'>=5s' if case['stall'][1] >= 5 else '<5s'}",) if case.get("stall") else ()) + tuple(c for c, v in (("bad-then-good", bad_then_good), ("raw-line-break-char", raw_break), ("nested-null", nested_null), ("inbound-batches", bool(case.get("inbound"))),
                                        ("huge-line", any(w is not None and len(json.dumps(w)) > 65536 for _, w in built))) if v) + (f"items:{min(len(items), 12)}",) + (("real-child",) if case.get("real") else ())

    data: bytes = state.get("data", b"")
    if state.get("closed_before"):
        out.fail("stdin-closed-while-write-stream-open", "")
    if not state.get("closed_after"):
        out.fail("stdin-not-closed-after-write-stream-closed", "")
    if expected and not data.endswith(b"\n"):
        out.fail("last-line-not-newline-terminated", repr(data[-60:]))
        return out
    if b"\r" in data:
        out.fail("raw-carriage-return-in-output", repr(data[:200]))
    lines = data.split(b"\n")[:-1] if data else []
    n_inbound = len([k for k in _inbound(case) if k < len(built)]) if not case.get("real") else 0
    if n_inbound:
        # the reader task answers each inbound batch with one -32600 line on the same stdin; every line
        # must still be whole, and the remaining lines are the messages
        keep, rejections = [], 0
        for ln in lines:
            try:
                v_ = json.loads(ln.decode("utf-8"))
            except Exception:
                out.fail("line-torn-by-a-concurrent-writer", f"not JSON: {ln[:120]!r} ... ({len(ln)} bytes)")
                return out
            if (isinstance(v_, dict) and v_.get("id") is None and isinstance(v_.get("error"), dict) and v_["error"].get("code") == -32600
                    and not any(strict_eq(v_, w_) for w_ in expected)):  # (an item of the case may itself be a null-id -32600 error)
                rejections += 1
            else:
                keep.append(ln)
        if rejections != n_inbound:
            out.fail("batch-rejection-lines-missing-or-duplicated", f"{rejections} rejection lines for {n_inbound} inbound batches")
            return out
        lines = keep
    if len(lines) != len(expected):
        if len(lines) < len(expected):
            # which one is missing? if everything after a bad item is missing the writer stopped
            sig = "writer-stopped-after-unserialisable-item" if bad_then_good and len(lines) <= next(i for i, b in enumerate(built) if b[1] is None) else "serialisable-item-not-written"
        else:
            sig = "extra-line-written" if not any(b"\n" in json.dumps(w).encode() for w in expected) else "line-count-differs"
        out.fail(sig, f"{len(lines)} lines for {len(expected)} serialisable items; data={data[:300]!r}")
        return out
    for i, (line, w) in enumerate(zip(lines, expected)):
        try:
            v = json.loads(line.decode("utf-8"))
        except Exception as e:  # noqa
            out.fail("line-not-utf8-json", f"line {i}: {line[:200]!r}")
            return out
        d = first_diff(v, w)
        if d:
            # order or content?
            if any(strict_eq(v, w2) for w2 in expected):
                out.fail("lines-out-of-order", f"line {i}: {d}")
            else:
                out.fail("line-content-differs-from-message", f"line {i}: {d}")
            return out
    return out


# --------------------------------------------------------------------------------------- generators

_ids = request_ids.filter(lambda i: i != "")
_methods = st.sampled_from(["ping", "tools/call", "notifications/progress", "é/\n", "x"])


@st.composite
def wire_message(draw, kind: str) -> Dict[str, Any]:
    w: Dict[str, Any] = {"jsonrpc": "2.0"}
    if kind in ("request", "response", "error"):
        w["id"] = draw(_ids)
    if kind in ("request", "notification"):
        w["method"] = draw(_methods)
        if draw(st.booleans()):
            w["params"] = draw(json_objects(8))
    elif kind == "response":
        w["result"] = draw(st.one_of(json_objects(8), st.lists(json_values(3), max_size=3), st.integers(-3, 3), json_text))
    else:
        e: Dict[str, Any] = {"code": draw(st.integers(-32800, 100)), "message": draw(json_text)}
        if draw(st.booleans()):
            e["data"] = draw(json_values(4))
        w["error"] = e
    return w


@st.composite
def item(draw) -> List[Any]:
    k = draw(st.sampled_from(["typed", "typed", "typed", "dict", "str", "bad"]))
    if k == "typed":
        cls = draw(st.sampled_from(["request", "notification", "response", "error", "unified"]))
        if cls == "unified":
            shape = draw(st.sampled_from(["request", "notification", "response", "error"]))
            w = draw(wire_message(shape))
            if shape == "error" and draw(st.integers(0, 2)) == 0:
                w["id"] = None  # the reply to a request whose id could not be read: "id": null must reach the peer
            if shape == "response" and not isinstance(w["result"], dict):
                w["result"] = {"v": w["result"]}  # the unified class types results as objects
            return ["typed", "unified", w]
        return ["typed", cls, draw(wire_message(cls))]
    if k == "dict":
        if draw(st.integers(0, 3)) == 0:
            return ["dict", draw(st.dictionaries(json_text, json_values(4), max_size=8))]
        w = draw(wire_message(draw(st.sampled_from(["request", "notification", "response", "error"]))))
        if "error" in w and draw(st.integers(0, 3)) == 0:
            w["id"] = None
        for k in draw(st.lists(st.sampled_from(["x-a", "x-b", "vendor", "é", "trace"]), max_size=4, unique=True)):
            w[k] = draw(st.one_of(json_text, st.integers(0, 9), st.just({"n": [None]})))
        return ["dict", w]
    if k == "str":
        return ["str", draw(wire_message(draw(st.sampled_from(["request", "notification", "response", "error"])))), draw(st.booleans()), draw(st.booleans())]
    return ["bad", draw(st.sampled_from(BAD_KINDS[:7]))]


@st.composite
def cases(draw):
    its = draw(st.lists(item(), min_size=1, max_size=12))
    # unusual but valid payloads: integers beyond 64 bits, lines larger than 64 KiB, deep nesting (plain dicts only)
    for it in its:
        if it[0] in ("typed", "dict", "str") and isinstance(it[-1] if it[0] == "dict" else it[2 if it[0] == "typed" else 1], dict):
            w = it[2] if it[0] == "typed" else it[1]
            r = draw(st.integers(0, 11))
            tgt = w.get("params") if isinstance(w.get("params"), dict) else (w.get("result") if isinstance(w.get("result"), dict) else None)
            if tgt is None:
                continue
            if r == 0:
                tgt["big-int"] = {"$int": draw(st.sampled_from([str(2**70), str(-(2**70)), "1" + "0" * 40]))}
            elif r == 1:
                tgt["big-text"] = {"$big": draw(st.sampled_from([66000, 70000, 140000]))}
            elif r == 2 and it[0] == "dict":
                tgt["deep"] = {"$deep": draw(st.sampled_from([100, 260, 300]))}
    if draw(st.integers(0, 3)) == 0:
        for _ in range(draw(st.integers(1, 3))):
            its.insert(draw(st.integers(1, len(its))), ["resend", draw(st.integers(0, 11)), draw(json_objects(4))])
    case: Dict[str, Any] = {"items": its}
    if draw(st.integers(0, 5)) == 0:
        case["pending_streams"] = draw(st.integers(1, 3))
    if draw(st.integers(0, 4)) == 0:
        case["stall"] = [draw(st.integers(0, len(its) - 1)), draw(st.sampled_from([0.01, 0.5, 3.0, 6.0, 12.0, 31.0, 61.0, 200.0])), draw(st.sampled_from(["full", "queued"]))]
    if draw(st.integers(0, 3)) == 0:
        case["burst"] = True
        return case
    if draw(st.integers(0, 3)) == 0:
        ks = sorted(set(draw(st.lists(st.integers(0, len(its) - 1), min_size=1, max_size=3))))
        case["inbound"] = [[k, draw(st.sampled_from([-1, 0, 1, 2, 3, 5]))] for k in ks]
    return case


def job_hyp(col: Collector, seed: int, tier: str, shard: int, n: int, backend: str = "default") -> None:
    if backend == "fallback":
        import chuk_mcp.protocol.mcp_pydantic_base as B

        assert not B.PYDANTIC_AVAILABLE, "fallback job must run with MCP_FORCE_FALLBACK=1"
    hyp_run(col, seed * 1000 + shard, cases().map(lambda c: dict(c, backend=backend) if backend != "default" else c), check, n)


def job_positions(col: Collector, seed: int, tier: str, backend: str = "default") -> None:
    """every unserialisable kind at every position of a fixed 4-item sequence."""
    good = [["typed", "request", {"jsonrpc": "2.0", "id": 1, "method": "a", "params": {"t": "x\ny "}}], ["dict", {"jsonrpc": "2.0", "method": "b"}],
            ["str", {"jsonrpc": "2.0", "id": "2", "result": {"n": None}}, False, True], ["typed", "unified", {"jsonrpc": "2.0", "id": 3, "error": {"code": -1, "message": "é"}}],
            ["typed", "unified", {"jsonrpc": "2.0", "id": None, "error": {"code": -32700, "message": "Parse error"}}]]
    for kind in BAD_KINDS[:7]:
        for pos in range(len(good) + 1):
            items = good[:pos] + [["bad", kind]] + good[pos:]
            case = {"items": items}
            col.record(case, check(case))
        case = {"items": [["bad", kind], ["bad", kind]] + good}
        col.record(case, check(case))
        case = {"items": [["bad", kind]] + good, "pending_streams": 2}
        col.record(case, check(case))
    for cls in ("request", "notification"):
        w0 = {"jsonrpc": "2.0", "method": "notifications/progress", "params": {"progress": 1}}
        if cls == "request":
            w0["id"] = "r1"
        for between in ([], [["dict", {"jsonrpc": "2.0", "method": "b"}]], [["str", {"jsonrpc": "2.0", "method": "c"}, False, True]], [["bad", "object"]], [["typed", "notification", {"jsonrpc": "2.0", "method": "d"}]]):
            case = {"items": [["typed", cls, w0]] + between + [["resend", 0, {"progress": 2}]] + between + [["resend", 0, {"progress": 3, "n": None}]]}
            col.record(case, check(case))
    col.exhaustive_parts.append("each of 7 unserialisable kinds at each of 6 positions of a fixed 5-item sequence (incl. a null-id error reply)")


def job_real(col: Collector, seed: int, tier: str, shard: int, n: int) -> None:
    hyp_run(col, seed * 1000 + 700 + shard, cases().map(lambda c: dict(c, real=True)), check, n)


def job_big_inbound(col: Collector, seed: int, tier: str) -> None:
    """a line beyond 64 KiB in each outbound form x a server batch arriving at every small scheduler offset into its
    write (the reader task then writes its rejection on the same pipe), followed by an ordinary message"""
    small = ["dict", {"jsonrpc": "2.0", "method": "after"}]
    for size in (66000, 140000):
        bigw = {"jsonrpc": "2.0", "id": 1, "method": "big", "params": {"blob": {"$big": size}}}
        for form in (["typed", "request", bigw], ["dict", bigw], ["str", bigw, False, True], ["typed", "unified", bigw]):
            for d in (-1, 0, 1, 2, 3, 4, 5, 8):
                case = {"items": [form, small], "inbound": [[0, d]]}
                col.record(case, check(case))
                case = {"items": [small, form, small], "inbound": [[1, d], [2, 0]]}
                col.record(case, check(case))
    # bursts whose frames add up to more than 64 KiB at different points
    for sizes in ([30000, 30000, 30000, 10], [10, 66000, 10, 10], [20000] * 7, [10, 10, 70000], [9000] * 12):
        for form in ("dict", "typed", "str"):
            items = []
            for j, sz in enumerate(sizes):
                w_ = {"jsonrpc": "2.0", "id": j, "method": "m", "params": {"blob": {"$big": sz}}}
                items.append(["dict", w_] if form == "dict" else (["typed", "request", w_] if form == "typed" else ["str", w_, False, True]))
            case = {"items": items, "burst": True}
            col.record(case, check(case))
    # a child that stops reading for a while: every outbound form x small / huge frame x stall length x what the pipe did with the frame
    for secs in (0.5, 4.9, 5.0, 5.1, 9.9, 10.1, 30.0, 60.1, 120.0, 600.0):
        for mode in ("full", "queued"):
            for size in (10, 140000):
                w_ = {"jsonrpc": "2.0", "id": 1, "method": "m", "params": {"blob": {"$big": size}}}
                for form in (["typed", "request", w_], ["dict", w_], ["str", w_, False, True]):
                    for k in (0, 1):
                        for burst in (False, True):
                            case = {"items": [small, form, small], "stall": [k, secs, mode]}
                            if burst:
                                case["burst"] = True
                            col.record(case, check(case))
    col.exhaustive_parts.append("lines of 66,000 / 140,000 characters in 4 outbound forms x a server batch arriving at 8 scheduler offsets into the write")
    col.exhaustive_parts.append("child not reading its stdin for 10 durations (0.5 s .. 600 s) x frame taken by the pipe or not x 3 outbound forms x small/140,000-character frame x stalled item x burst")


JOBS = {"hyp": job_hyp, "positions": job_positions, "real": job_real, "big_inbound": job_big_inbound}


def jobs(tier: str):
    # the built-in model base (Pydantic absent) serialises typed messages through the package's own JSON layer: same oracle
    fb = {"backend": "fallback", "_env": {"MCP_FORCE_FALLBACK": "1"}}
    if tier == "quick":
        return [("hyp", {"shard": s, "n": 150}) for s in range(10)] + [("positions", {}), ("big_inbound", {})] + [("hyp", dict(fb, shard=20, n=150)), ("positions", dict(fb))]
    return [("hyp", {"shard": s, "n": 2500}) for s in range(11)] + [("hyp", dict(fb, shard=20 + s, n=1500)) for s in range(2)] + [("positions", dict(fb))] + [("positions", {}), ("big_inbound", {})] + [("real", {"shard": s, "n": 60}) for s in range(4)]


def shrink(signature: str, seed: int):
    return hyp_shrink(seed * 1000, cases(), check, signature, 1000)
