"""Scripted HTTP peers without source hooks.

The transports look up `httpx` as a module global at call time; `install(module, handler)`
replaces that name with a shim whose `AsyncClient(...)` builds the *real* httpx.AsyncClient
over `httpx.MockTransport(handler)`: request building, header merging, redirects, body
decoding (`aiter_text` incremental decoding) are all real; only the socket is replaced.
"""
from __future__ import annotations

import asyncio
import importlib
import types
from contextlib import contextmanager
from typing import Any, AsyncIterator, Callable, Dict, List, Optional

import httpx as real_httpx


class Shim(types.SimpleNamespace):
    def __init__(self, handler: Callable) -> None:
        super().__init__()
        self._handler = handler
        self.clients: List[real_httpx.AsyncClient] = []

    def __getattr__(self, name: str) -> Any:
        return getattr(real_httpx, name)

    def AsyncClient(self, *a: Any, **kw: Any) -> real_httpx.AsyncClient:  # noqa: N802
        kw.pop("transport", None)
        c = real_httpx.AsyncClient(*a, transport=real_httpx.MockTransport(self._handler), **kw)
        self.clients.append(c)
        return c


@contextmanager
def install(which: str, handler: Callable):
    """which in {"http", "sse"}"""
    modname = {"http": "chuk_mcp.transports.http.transport", "sse": "chuk_mcp.transports.sse.transport"}[which]
    mod = importlib.import_module(modname)
    shim = Shim(handler)
    orig = mod.httpx
    mod.httpx = shim  # type: ignore
    try:
        yield shim
    finally:
        mod.httpx = orig  # type: ignore


class EventStream:
    """Server side of a live SSE GET stream: the harness feeds byte chunks at chosen
    (virtual) instants; `close()` ends the stream."""

    def __init__(self) -> None:
        self._q: asyncio.Queue = asyncio.Queue()
        self.closed_by_client = False
        self.started = False

    def feed(self, data: bytes) -> None:
        self._q.put_nowait(data)

    def close(self) -> None:
        self._q.put_nowait(None)

    async def gen(self) -> AsyncIterator[bytes]:
        self.started = True
        try:
            while True:
                item = await self._q.get()
                if item is None:
                    return
                if isinstance(item, BaseException):
                    raise item
                yield item
        finally:
            self.closed_by_client = True

    def fail(self, exc: BaseException) -> None:
        self._q.put_nowait(exc)


def post_bodies_for(which: str, messages: List[Any]) -> List[bytes]:
    """Send `messages` through the transport `which` and return the POST bodies a server sees."""
    from .vclock import run_virtual

    bodies: List[bytes] = []
    if which == "http":
        from chuk_mcp.transports.http.http_client import http_client
        from chuk_mcp.transports.http.parameters import StreamableHTTPParameters

        async def handler(request: real_httpx.Request) -> real_httpx.Response:
            bodies.append(request.content)
            return real_httpx.Response(202)

        async def main():
            with install("http", handler):
                async with http_client(StreamableHTTPParameters(url="http://test.invalid/mcp", timeout=5.0)) as (r, w):
                    for m in messages:
                        await w.send(m)
                    await asyncio.sleep(0.2)

        run_virtual(main)
        return bodies

    from chuk_mcp.transports.sse.parameters import SSEParameters
    from chuk_mcp.transports.sse.sse_client import sse_client

    es = EventStream()

    async def handler2(request: real_httpx.Request) -> real_httpx.Response:
        if request.method == "GET":
            es.feed(b"event: endpoint\ndata: /messages/?session_id=s1\n\n")
            return real_httpx.Response(200, headers={"content-type": "text/event-stream"}, content=es.gen())
        bodies.append(request.content)
        # answer immediately so the sender loop moves on
        try:
            import json

            w = json.loads(request.content)
        except Exception:
            w = {}
        if isinstance(w, dict) and w.get("id") is not None:
            return real_httpx.Response(200, json={"jsonrpc": "2.0", "id": w["id"], "result": {}})
        return real_httpx.Response(202)

    async def main2():
        with install("sse", handler2):
            async with sse_client(SSEParameters(url="http://test.invalid", timeout=5.0)) as (r, w):
                for m in messages:
                    await w.send(m)
                await asyncio.sleep(0.5)
                es.close()

    run_virtual(main2)
    return bodies
