"""C15 - client-observable behaviour does not depend on the transport carrying it."""
from __future__ import annotations

import asyncio
import json
from typing import Any, Callable, Dict, List, Optional, Tuple

import anyio
import httpx
from hypothesis import strategies as st

from ..fakehttp import EventStream, install
from ..fakeproc import FakeProcess, patched_open_process, stdio_params
from ..helpers import valid_result_for
from ..jsonrpc_ref import classify, first_diff, strict_eq
from ..runner import Collector, Outcome, hyp_run, hyp_shrink
from ..vclock import run_virtual

ID = "C15"
LEVEL = "exploration"
RULE = (
    "case = conversation: list of steps (client operation in {initialize, tools/list, tools/call, resources/read, prompts/get, ping}, server reply = 0..3 notifications then a result with nested "
    "Unicode (astral, U+2028) / nulls / 64-bit ints or an error of each class), run over four carriers with scripted peers - stdio (scripted process), Streamable HTTP with JSON bodies (only "
    "notification-free steps), Streamable HTTP with SSE bodies, legacy SSE (202 + events) - in two passes: A raw requests with str/int ids, comparing the read-stream transcript with the "
    "script-derived one; B the typed send_* helpers, comparing each helper's normalised outcome (validated result dump / exception class + code); non-trivial = a notification before a response, "
    "non-ASCII text, an error reply or an int id; distinct = distinct (conversation, pass)"
    "; round 8: error replies carrying a data member of every JSON type; keep-alive comments and data-less typed events between messages"
    "; added in rounds 6-7 of the seeded changes: per-step spelling of JSON and events (compact, no space, untyped, CRLF, sorted, escaped); legacy server answering in the POST reply; 1e400 / escaped lone surrogates"
)
ASSUMPTIONS = [
    "each carrier uses the plain encoding its parser is built for (exotic encodings are C11/C12's subject)",
    "scripted peers (process / MockTransport) on a virtual clock",
    "the expected transcript is derived from the script, so agreement with it implies pairwise agreement between carriers",
]
EXHAUSTIVE = {"quick": False, "thorough": False}
META = {
    "text": "Differential testing of one generated conversation over four carriers plus a script-derived expected transcript; both the raw read-stream transcript and the typed helper outcomes are compared.",
    "technique": "differential Hypothesis conversations over 4 carriers with scripted peers; oracle = script-derived transcript",
}

CARRIERS = ["stdio", "http-json", "http-sse", "sse"]
OPS = {
    "initialize": "initialize", "tools/list": "tools/list", "tools/call": "tools/call", "resources/read": "resources/read", "prompts/get": "prompts/get", "ping": "ping",
}
PERMANENT = frozenset([-32700, -32600, -32601, -32602, -32000, -32003, -32005, -32006, -32007, -32008])


# values whose JSON text is valid but unusual: a number beyond the range of a double (parsers that accept it give infinity),
# a string with an escaped lone surrogate (what json.dumps emits for a surrogateescape'd file name)
EXOTIC: Dict[str, Any] = {"bigexp": float("inf"), "lone-surrogate": "r\udce9sum\udce9.txt", "negexp": float("-inf")}


EDATA: List[Any] = [{"details": "d", "n": [None]}, "file:///x", [1, "two", None], 30, None, True, {}, "", 0, 1.5]


def reply_for(step: Dict[str, Any], req: Dict[str, Any]) -> List[Dict[str, Any]]:
    msgs: List[Dict[str, Any]] = []
    for i in range(step.get("notifs", 0)):
        msgs.append({"jsonrpc": "2.0", "method": "notifications/message", "params": {"level": "info", "data": {"i": i, "t": step.get("text", "")}}})
    rid = req.get("id")
    if step["reply"] == "error-null-id":
        # the "could not tell which request" class of replies (parse error / invalid request): id is null
        msgs.append({"jsonrpc": "2.0", "id": None, "error": {"code": step["code"], "message": "srv " + step.get("text", "")}})
    elif step["reply"] == "error":
        err: Dict[str, Any] = {"code": step["code"], "message": "srv " + step.get("text", "")}
        if "edata" in step:
            err["data"] = EDATA[step["edata"] % len(EDATA)]  # JSON-RPC: the optional data member is any JSON value
        msgs.append({"jsonrpc": "2.0", "id": rid, "error": err})
    else:
        res = valid_result_for(step["op"]) or {}
        res = dict(res)
        res["x-extra"] = step.get("payload", {})
        if step.get("exotic"):
            res["x-exotic"] = EXOTIC[step["exotic"]]
        msgs.append({"jsonrpc": "2.0", "id": rid, "result": res})
    return msgs


def segments(data: bytes, cuts: List[int]) -> List[bytes]:
    """data cut at the given offsets (taken modulo its length): how the bytes happen to arrive"""
    if not data:
        return []
    pts = sorted({c % len(data) for c in cuts} - {0})
    out, last = [], 0
    for p_ in pts:
        out.append(data[last:p_])
        last = p_
    out.append(data[last:])
    return out


async def _agen(pieces: List[bytes]):
    for p_ in pieces:
        yield p_
        await asyncio.sleep(0)


NOTIF_HANDLING = 0.1  # seconds the scripted server spends on a client notification
LAST_SERVER_LOG: List[Any] = []  # methods in the order the server finished handling them, for the last run_carrier call


def run_carrier(carrier: str, steps: List[Dict[str, Any]], client_fn: Callable) -> Any:
    """Run client_fn(read, write) against a scripted peer answering the i-th request with steps[i]."""
    from chuk_mcp.transports.http.http_client import http_client
    from chuk_mcp.transports.http.parameters import StreamableHTTPParameters
    from chuk_mcp.transports.sse.parameters import SSEParameters
    from chuk_mcp.transports.sse.sse_client import sse_client
    from chuk_mcp.transports.stdio.stdio_client import StdioClient

    counter = {"n": 0}
    result: Dict[str, Any] = {}
    server_log: List[Any] = LAST_SERVER_LOG
    del server_log[:]

    cur: Dict[str, Any] = {"cuts": [], "spell": {}}

    def dumps(m: Any) -> str:
        # how the peer's serialiser happens to spell JSON: compact or with a space after ':' and ','; members in insertion
        # order or sorted; non-ASCII raw or escaped
        ex = cur.get("exotic")
        if ex in ("bigexp", "negexp"):
            # (the infinite value is swapped for a sentinel string first, so that only that value - never a generated text
            # that happens to read "Infinity" - is spelt 1e400)
            def swap(v: Any) -> Any:
                if isinstance(v, float) and v in (float("inf"), float("-inf")):
                    return "$$VPBT-BIGEXP$$" if v > 0 else "$$VPBT-NEGEXP$$"
                if isinstance(v, dict):
                    return {k_: swap(x_) for k_, x_ in v.items()}
                if isinstance(v, list):
                    return [swap(x_) for x_ in v]
                return v

            m = swap(m)
        text = json.dumps(m, ensure_ascii=bool(cur["spell"].get("ascii")) or ex == "lone-surrogate", separators=(",", ":") if cur["spell"].get("compact") else None,
                          sort_keys=bool(cur["spell"].get("sorted")))
        if ex in ("bigexp", "negexp"):
            text = text.replace('"$$VPBT-BIGEXP$$"', "1e400").replace('"$$VPBT-NEGEXP$$"', "-1e400")
        return text

    def sse_block(m: Any, legacy: bool) -> str:
        # how the peer spells an event: with or without the optional space after the colon, with or without the event
        # type (untyped events are 'message' events), LF or CRLF - the legacy transport documents 'data: ' with the space
        sp = cur["spell"]
        eol = "\r\n" if sp.get("crlf") else "\n"
        colon = ":" if (sp.get("nospace") and not legacy) else ": "
        head = "" if sp.get("untyped") else f"event{colon}message{eol}"
        # keep-alives between messages: a comment and an event that has a type but no data (never dispatched; the type does
        # not carry over to the next event)
        ka = f":{' keep-alive' }{eol}{eol}event{colon}ping{eol}{eol}" if sp.get("keepalive") else ""
        return f"{ka}{head}data{colon}{dumps(m)}{eol}{eol}"

    def next_reply(req: Dict[str, Any]) -> Optional[List[Dict[str, Any]]]:
        if not (isinstance(req, dict) and "method" in req and req.get("id") is not None):
            return None  # client notification (e.g. notifications/initialized)
        i = counter["n"]
        counter["n"] += 1
        cur["cuts"] = steps[i].get("cuts", []) if i < len(steps) else []
        cur["spell"] = steps[i].get("spell", {}) if i < len(steps) else {}
        cur["exotic"] = steps[i].get("exotic") if i < len(steps) else None
        if i >= len(steps):
            return [{"jsonrpc": "2.0", "id": req["id"], "result": {}}]
        return reply_for(steps[i], req)

    async def main():
        if carrier == "stdio":
            procs: List[FakeProcess] = []
            with patched_open_process(procs):
                client = StdioClient(stdio_params())
                async with client:
                    proc = procs[0]
                    buf = {"b": b""}

                    def on_stdin(data: bytes) -> None:
                        buf["b"] += data
                        while b"\n" in buf["b"]:
                            line, buf["b"] = buf["b"].split(b"\n", 1)
                            req_ = json.loads(line)
                            server_log.append(req_.get("method") if isinstance(req_, dict) else "?")
                            rep = next_reply(req_)
                            blob = b"".join((dumps(m) + ("\r\n" if cur["spell"].get("crlf") else "\n")).encode("utf-8") for m in rep or [])
                            for piece in segments(blob, cur["cuts"]):  # pipe reads are not aligned to lines
                                proc.stdout.feed(piece)

                    proc.on_stdin = on_stdin
                    r, w = client.get_streams()
                    result["v"] = await client_fn(r, w)
        elif carrier in ("http-json", "http-sse"):
            async def handler(request: httpx.Request) -> httpx.Response:
                req_ = json.loads(request.content)
                rep = next_reply(req_)
                if rep is None:
                    # the server takes a moment to act on a client notification; it has "seen" a message once
                    # it has finished handling it
                    await asyncio.sleep(NOTIF_HANDLING)
                    server_log.append(req_.get("method") if isinstance(req_, dict) else "?")
                    return httpx.Response(202)
                server_log.append(req_.get("method") if isinstance(req_, dict) else "?")
                if carrier == "http-json":
                    return httpx.Response(200, headers={"content-type": "application/json"}, content=_agen(segments(dumps(rep[-1]).encode("utf-8"), cur["cuts"])))
                body = "".join(sse_block(m, False) for m in rep)
                return httpx.Response(200, headers={"content-type": "text/event-stream"}, content=_agen(segments(body.encode("utf-8"), cur["cuts"])))

            with install("http", handler):
                async with http_client(StreamableHTTPParameters(url="http://test.invalid/mcp", timeout=5.0)) as (r, w):
                    result["v"] = await client_fn(r, w)
        else:
            es = EventStream()

            async def handler2(request: httpx.Request) -> httpx.Response:
                if request.method == "GET":
                    es.feed(b"event: endpoint\ndata: /messages/?session_id=s1\n\n")
                    return httpx.Response(200, headers={"content-type": "text/event-stream"}, content=es.gen())
                i_before = counter["n"]
                req_ = json.loads(request.content)
                rep = next_reply(req_)
                if rep is None:
                    await asyncio.sleep(NOTIF_HANDLING)
                server_log.append(req_.get("method") if isinstance(req_, dict) else "?")
                mode = steps[i_before].get("sse_order", "202-first") if (rep is not None and i_before < len(steps)) else "202-first"

                cuts_ = list(cur["cuts"])
                blocks_text = [sse_block(m, True) for m in rep or []]
                if mode == "200-reply" and rep:
                    # the server answers the POST itself: the response alone, or the notifications and the response as an array
                    return httpx.Response(200, headers={"content-type": "application/json"}, content=dumps(rep[0] if len(rep) == 1 else rep).encode("utf-8"))

                def emit():
                    blob = "".join(blocks_text).encode("utf-8")
                    for piece in segments(blob, cuts_):
                        es.feed(piece)

                if mode == "event-first":
                    # the answer travels on the event stream before the POST is acknowledged
                    emit()
                    await asyncio.sleep(0.02)
                else:
                    asyncio.get_running_loop().call_later(0.02, emit)
                return httpx.Response(202)

            with install("sse", handler2):
                async with sse_client(SSEParameters(url="http://test.invalid", timeout=5.0)) as (r, w):
                    result["v"] = await client_fn(r, w)
                es.close()

    run_virtual(main)
    return result.get("v")


def _norm(m: Any) -> Any:
    return m.model_dump(exclude_none=True) if hasattr(m, "model_dump") else m


def check(case: Dict[str, Any]) -> Outcome:
    from chuk_mcp.protocol.messages.json_rpc_message import parse_message

    out = Outcome()
    steps: List[Dict[str, Any]] = case["steps"]
    mode = case.get("pass", "A")
    carriers = [c for c in CARRIERS if not (c == "http-json" and any(s.get("notifs", 0) for s in steps))]
    if any(s["reply"] == "error-null-id" for s in steps):
        # a request that is never answered is not expressible on the legacy SSE carrier: by design (C12) it answers
        # such a request itself with a synthesised timeout error and holds later requests back meanwhile
        carriers = [c for c in carriers if c != "sse"]
    nonascii = any(any(ord(ch) > 0x7E for ch in json.dumps([s.get("text", ""), s.get("payload", {})], ensure_ascii=False)) for s in steps)
    out.nontrivial = any(s.get("notifs", 0) for s in steps) or nonascii or any(s["reply"] != "result" for s in steps) or any(s.get("cuts") for s in steps) or any(isinstance(s.get("id"), int) for s in steps)
    out.classes = (f"pass:{mode}", f"steps:{len(steps)}", f"carriers:{len(carriers)}") + (("notifs",) if any(s.get("notifs", 0) for s in steps) else ()) + (("errors",) if any(s["reply"] == "error" for s in steps) else ()) + (("error-with-data",) if any("edata" in s for s in steps) else ()) + (("null-id-error",) if any(s["reply"] == "error-null-id" for s in steps) else ()) + (("segmented",) if any(s.get("cuts") for s in steps) else ()) + (("falsy-id",) if any(s.get("id") in (0, "") and not isinstance(s.get("id"), bool) for s in steps) else ()) + tuple(sorted({"spelling:" + k_ for s in steps for k_ in s.get("spell", {})})) + tuple(sorted({"json-value:" + s["exotic"] for s in steps if s.get("exotic")})) + (("legacy-sse-answers-in-the-post-reply",) if any(s.get("sse_order") == "200-reply" for s in steps) else ())

    if mode == "A":
        reqs = [{"jsonrpc": "2.0", "id": s["id"], "method": s["op"], "params": {"p": s.get("text", "")}} for s in steps]
        expected: List[Any] = []
        for s, rq in zip(steps, reqs):
            expected.extend(reply_for(s, rq))

        async def client(r, w):
            got: List[Any] = []
            def drain():
                while True:
                    try:
                        got.append(_norm(r.receive_nowait()))
                    except (anyio.WouldBlock, anyio.EndOfStream, anyio.ClosedResourceError):
                        break

            async def settle():
                # read until nothing more arrives (a transport that applies back-pressure only hands over the rest
                # once the application has made room)
                quiet = 0
                while quiet < 3:
                    n0 = len(got)
                    await asyncio.sleep(0.1)
                    drain()
                    quiet = quiet + 1 if len(got) == n0 else 0

            for rq in reqs:
                await w.send(parse_message(rq))
                await settle()
            # nothing else may turn up later (e.g. a synthesised timeout for an answered request)
            await asyncio.sleep(7.0)
            await settle()
            return got

        transcripts: Dict[str, Any] = {}
        for c in carriers:
            try:
                transcripts[c] = run_carrier(c, steps, client)
            except Exception as e:  # noqa
                out.fail(f"carrier-raised:{c}", f"{type(e).__name__}: {e}")
                return out
        for c in carriers:
            got = transcripts[c]
            if got is None or len(got) != len(expected) or not all(strict_eq(a, b) for a, b in zip(got, expected)):
                d = None
                if got is not None:
                    for a, b in zip(got, expected):
                        d = first_diff(a, b)
                        if d:
                            break
                if got is not None and len(got) != len(expected):
                    what = "message-count"
                elif d and ".id" in d.split(":")[0]:
                    what = "id-altered"
                elif got is not None and sorted(map(json.dumps, got)) == sorted(map(json.dumps, expected)):
                    what = "order-altered"
                else:
                    what = "payload-altered"
                out.fail(f"transcript-differs-from-script:{what}:{c}", f"{d or ''} got {json.dumps(got, ensure_ascii=True)[:300]} want {json.dumps(expected, ensure_ascii=True)[:300]}")
                return out
        return out

    # ---------------------------------------------------------------- pass B: helpers
    from chuk_mcp.protocol.messages.initialize.send_messages import send_initialize
    from chuk_mcp.protocol.messages.ping.send_messages import send_ping
    from chuk_mcp.protocol.messages.prompts.send_messages import send_prompts_get
    from chuk_mcp.protocol.messages.resources.send_messages import send_resources_read
    from chuk_mcp.protocol.messages.tools.send_messages import send_tools_call, send_tools_list

    async def call_helper(op: str, r, w, text: str):
        if op == "initialize":
            return await send_initialize(r, w, timeout=2.0)
        if op == "tools/list":
            return await send_tools_list(r, w, timeout=2.0)
        # names and URIs are caller data like any other text (non-ASCII tool names, URIs with spaces ...)
        if op == "tools/call":
            return await send_tools_call(r, w, "t" + text, {"q": text}, timeout=2.0)
        if op == "resources/read":
            return await send_resources_read(r, w, "file:///a" + text, timeout=2.0)
        if op == "prompts/get":
            return await send_prompts_get(r, w, "p" + text, {"q": text}, timeout=2.0)
        return await send_ping(r, w, timeout=2.0)

    async def client_b(r, w):
        outs: List[Any] = []
        for s in steps:
            try:
                v = await call_helper(s["op"], r, w, s.get("text", ""))
                outs.append(("return", v.model_dump(by_alias=True, exclude_none=True) if hasattr(v, "model_dump") else v))
            except Exception as e:  # noqa
                outs.append(("raise", type(e).__name__, getattr(e, "code", None)))
            await asyncio.sleep(0.05)
        await asyncio.sleep(0.2)
        return outs

    outcomes: Dict[str, Any] = {}
    logs: Dict[str, List[Any]] = {}
    for c in carriers:
        try:
            outcomes[c] = run_carrier(c, steps, client_b)
            logs[c] = list(LAST_SERVER_LOG)
        except Exception as e:  # noqa
            out.fail(f"carrier-raised:{c}", f"{type(e).__name__}: {e}")
            return out
    # what the client wrote must reach the server in the order it was written, whatever carries it
    for c in carriers[1:]:
        a_, b_ = logs[carriers[0]], logs[c]
        k_ = min(len(a_), len(b_))  # (a trailing notification may still be in the server's hands when the client leaves)
        if a_[:k_] != b_[:k_] or abs(len(a_) - len(b_)) > 1:
            out.fail(f"server-sees-client-messages-in-another-order:{carriers[0]}-vs-{c}", f"{logs[carriers[0]]} vs {logs[c]}")
            return out
    # script-derived expectation
    for c in carriers:
        got = outcomes[c]
        for i, s in enumerate(steps):
            o = got[i] if got and i < len(got) else None
            if s["reply"] == "error-null-id":
                # a reply that names no request answers none: the helper runs into its timeout
                ok = (o == ("return", False)) if s["op"] == "ping" else (o is not None and o[0] == "raise" and o[1] == "TimeoutError")
                if not ok:
                    out.fail(f"helper-outcome-differs-from-script:null-id-error:{c}", f"step {i} {s['op']} code {s['code']}: {o!r}")
                    return out
            elif s["reply"] == "error":
                if s["op"] == "ping":
                    ok = o == ("return", False)
                else:
                    cls = "NonRetryableError" if s["code"] in PERMANENT else "RetryableError"
                    ok = o is not None and o[0] == "raise" and o[2] == s["code"] and (o[1] == cls or (s["op"] == "initialize" and o[1] == "VersionMismatchError"))
                if not ok:
                    out.fail(f"helper-outcome-differs-from-script:error:{c}", f"step {i} {s['op']} code {s['code']}: {o!r}")
                    return out
            else:
                if s["op"] == "ping":
                    ok = o == ("return", True)
                else:
                    ok = o is not None and o[0] == "return" and isinstance(o[1], dict) and strict_eq(o[1].get("x-extra"), s.get("payload", {}))
                if not ok:
                    out.fail(f"helper-outcome-differs-from-script:result:{c}", f"step {i} {s['op']}: {json.dumps(o, default=repr)[:300]}")
                    return out
    base = outcomes[carriers[0]]
    for c in carriers[1:]:
        if json.dumps(outcomes[c], sort_keys=True, default=repr) != json.dumps(base, sort_keys=True, default=repr):
            out.fail(f"helper-outcomes-differ-between-carriers:{carriers[0]}-vs-{c}", f"{json.dumps(base, default=repr)[:250]} vs {json.dumps(outcomes[c], default=repr)[:250]}")
            return out
    return out


# --------------------------------------------------------------------------------------- generators

_text = st.text(alphabet=st.one_of(st.characters(min_codepoint=0x20, max_codepoint=0x7E), st.sampled_from(list("é  \u0085\U0001F600\U0010FFFF日\n\t\"\\"))), max_size=8)
_payload = st.dictionaries(_text, st.one_of(_text, st.none(), st.integers(-(2**63), 2**64 - 1), st.floats(allow_nan=False, allow_infinity=False), st.lists(st.one_of(_text, st.none()), max_size=2), st.dictionaries(_text, st.none(), max_size=1)), max_size=3)
CODES = [-32700, -32600, -32601, -32602, -32603, -32000, -32001, -32002, -32004, -32005, 1, -1, 500]


@st.composite
def cases(draw, mode: str):
    n = draw(st.integers(1, 4))
    steps = []
    for k in range(n):
        s: Dict[str, Any] = {"op": draw(st.sampled_from(sorted(OPS))), "notifs": draw(st.sampled_from([0, 0, 1, 2, 3, 3, 120, 160])), "text": draw(_text), "payload": draw(_payload)}
        r_ = draw(st.integers(0, 11))
        if r_ <= 2:
            s["reply"] = "error"
            s["code"] = draw(st.sampled_from(CODES))
            if draw(st.booleans()):
                s["edata"] = draw(st.integers(0, len(EDATA) - 1))
        elif r_ == 3:
            s["reply"] = "error-null-id"
            s["code"] = draw(st.sampled_from([-32700, -32600]))
        else:
            s["reply"] = "result"
        if draw(st.integers(0, 2)) == 0:
            # where the carrier happens to cut the server's bytes (pipe reads, TCP segments)
            s["cuts"] = draw(st.lists(st.integers(1, 600), min_size=1, max_size=4))
        s["sse_order"] = draw(st.sampled_from(["202-first", "event-first", "202-first", "event-first", "200-reply"]))
        if s["reply"] == "error-null-id" and s["sse_order"] == "200-reply":
            s["sse_order"] = "202-first"
        if s["sse_order"] == "200-reply" and s["notifs"] > 3:
            s["notifs"] = 3
        if draw(st.integers(0, 2)) == 0:
            s["spell"] = {k_: True for k_ in draw(st.lists(st.sampled_from(["compact", "nospace", "untyped", "crlf", "sorted", "ascii", "keepalive"]), max_size=3, unique=True))}
        if s["reply"] == "result" and draw(st.integers(0, 5)) == 0:
            s["exotic"] = draw(st.sampled_from(sorted(EXOTIC)))
        if mode == "A":
            s["id"] = draw(st.one_of(st.sampled_from([f"r{k}", f"{100 + k}", f"é{k}", 0, "", 7, "7", "0"]), st.integers(1, 2**53).map(lambda v, k=k: v * 8 + k)))
        steps.append(s)
    if mode == "A":
        # ids must be unique within a conversation as JSON values; 7 and "7" are two different ids and may both occur
        seen = set()
        for k, s in enumerate(steps):
            key = json.dumps(s["id"])
            if key in seen:
                s["id"] = f"uniq-{k}"
            seen.add(json.dumps(s["id"]))
    return {"steps": steps, "pass": mode}


def job_hyp(col: Collector, seed: int, tier: str, shard: int, n: int, mode: str) -> None:
    hyp_run(col, seed * 1000 + shard, cases(mode), check, n)


def job_cuts(col: Collector, seed: int, tier: str, shard: int, nshards: int) -> None:
    """one conversation with non-ASCII text in notification, result and error, the server's bytes cut at EVERY offset
    (single cut) and at every pair of adjacent offsets (a one-byte read) on each carrier"""
    text = "\u00e9\U0001F600\u2028\u65e5"
    base = [
        {"op": "tools/call", "notifs": 1, "text": text, "payload": {"k\u00e9": text, "n": None}, "reply": "result", "sse_order": "202-first"},
        {"op": "resources/read", "notifs": 0, "text": text, "payload": {}, "reply": "error", "code": -32001, "sse_order": "event-first"},
    ]
    for mode in ("A", "B"):
        for c in range(1, 700):
            if c % nshards != shard:
                continue
            for cuts in ([c], [c, c + 1]):
                steps = [dict(st_, cuts=cuts) for st_ in base]
                if mode == "A":
                    steps = [dict(st_, id=f"r{k}") for k, st_ in enumerate(steps)]
                case = {"steps": steps, "pass": mode}
                col.record(case, check(case))
    if shard == 0:
        # ids that differ only in JSON type, or that are falsy, within one conversation (each order)
        import itertools as _it

        for ids in _it.permutations([7, "7", 0, "0", ""], 3):
            steps = [{"op": "ping", "notifs": k % 2, "text": "t", "payload": {}, "reply": "result", "sse_order": ["202-first", "event-first"][k % 2], "id": i_} for k, i_ in enumerate(ids)]
            case = {"steps": steps, "pass": "A"}
            col.record(case, check(case))
        col.exhaustive_parts.append("all ordered triples of the ids 7, \"7\", 0, \"0\", \"\" in one conversation on every carrier")
        col.exhaustive_parts.append("a two-step conversation with non-ASCII text: the server's bytes cut at every offset 1..699 (one cut; two adjacent cuts) on every carrier, both passes")


def job_spellings(col: Collector, seed: int, tier: str) -> None:
    """every combination of the four spelling choices (compact JSON, no space after the colon, untyped events, CRLF) x
    where the legacy server puts its answer (event stream before / after the 202, or the POST reply itself) x result / error,
    with notifications before the response and text that contains ': ' and ','"""
    import itertools as _it

    text = "a: b, c:d \u00e9"
    for r in range(7):
        for combo in _it.combinations(["compact", "nospace", "untyped", "crlf", "sorted", "ascii"], r):
            for order in ("202-first", "event-first", "200-reply"):
                for mode in ("A", "B"):
                    steps = [{"op": "tools/call", "notifs": 2, "text": text, "payload": {"k: v": text}, "reply": "result", "sse_order": order, "spell": {k_: True for k_ in combo}},
                             {"op": "ping", "notifs": 0, "text": text, "payload": {}, "reply": "error", "code": -32001, "sse_order": order, "spell": {k_: True for k_ in combo}},
                             {"op": "tools/list", "notifs": 1, "text": "", "payload": {}, "reply": "result", "sse_order": "202-first"}]
                    if mode == "A":
                        steps = [dict(st_, id=[f"r{k}", k + 5][k % 2]) for k, st_ in enumerate(steps)]
                    case = {"steps": steps, "pass": mode}
                    col.record(case, check(case))
    for ex in sorted(EXOTIC):
        for order in ("202-first", "200-reply"):
            for combo in ((), ("ascii", "compact"), ("sorted", "untyped")):
                steps = [{"op": "tools/list", "notifs": 0, "text": "t", "payload": {}, "reply": "result", "sse_order": order, "exotic": ex, "spell": {k_: True for k_ in combo}, "id": "x1"},
                         {"op": "ping", "notifs": 0, "text": "", "payload": {}, "reply": "result", "sse_order": "202-first", "id": 2}]
                case = {"steps": steps, "pass": "A"}
                col.record(case, check(case))
    for mode in ("A", "B"):
        for order in ("202-first", "event-first", "200-reply"):
            for combo in (("keepalive",), ("keepalive", "untyped"), ("keepalive", "untyped", "crlf"), ("keepalive", "nospace", "untyped")):
                steps = [{"op": "tools/call", "notifs": 2, "text": text, "payload": {}, "reply": "result", "sse_order": order, "spell": {k_: True for k_ in combo}},
                         {"op": "ping", "notifs": 1, "text": "", "payload": {}, "reply": "error", "code": -32001, "sse_order": order, "spell": {k_: True for k_ in combo}}]
                case = {"steps": [dict(s_, id=f"k{j_}") if mode == "A" else s_ for j_, s_ in enumerate(steps)], "pass": mode}
                col.record(case, check(case))
            for ed in range(len(EDATA)):
                steps = [{"op": "tools/call", "notifs": ed % 2, "text": "t", "payload": {}, "reply": "error", "code": [-32001, -32602, -32000][ed % 3], "edata": ed, "sse_order": order},
                         {"op": "ping", "notifs": 0, "text": "", "payload": {}, "reply": "result", "sse_order": "202-first"}]
                case = {"steps": [dict(s_, id=f"e{j_}") if mode == "A" else s_ for j_, s_ in enumerate(steps)], "pass": mode}
                col.record(case, check(case))
    col.exhaustive_parts.append("error replies whose data member is each of 10 JSON values x 3 placements x both passes; keep-alive comments and data-less typed events before every message x 4 spellings x 3 placements")
    col.exhaustive_parts.append("64 spelling combinations x 3 placements of the legacy server's answer x both passes; 3 valid-but-unusual JSON values (1e400, -1e400, escaped lone surrogates) x 2 placements x 3 spellings")


JOBS = {"hyp": job_hyp, "cuts": job_cuts, "spellings": job_spellings}


def jobs(tier: str):
    if tier == "quick":
        return [("hyp", {"shard": s, "n": 120, "mode": "A"}) for s in range(8)] + [("hyp", {"shard": 20 + s, "n": 80, "mode": "B"}) for s in range(8)] + [("cuts", {"shard": s, "nshards": 6}) for s in range(6)] + [("spellings", {})]
    return [("hyp", {"shard": s, "n": 700, "mode": "A"}) for s in range(8)] + [("hyp", {"shard": 20 + s, "n": 500, "mode": "B"}) for s in range(8)] + [("cuts", {"shard": s, "nshards": 6}) for s in range(6)] + [("spellings", {})]


def shrink(signature: str, seed: int):
    mode = "B" if signature.startswith("helper") else "A"
    return hyp_shrink(seed * 1000, cases(mode), check, signature, 300)
