"""C05 - stdio inbound framing is independent of how the byte stream is chunked."""
from __future__ import annotations

import asyncio
import itertools
import json
import os
from typing import Any, Dict, List, Optional, Tuple

import anyio
from hypothesis import strategies as st

from ..fakeproc import FakeProcess, patched_open_process, stdio_params
from ..jsonrpc_ref import classify, first_diff, strict_eq
from ..runner import Collector, Outcome, hyp_run, hyp_shrink
from ..vclock import run_virtual

ID = "C05"
LEVEL = "exploration"
RULE = (
    "case = (byte stream the child writes, cut positions, bytes-or-str delivery): the stream is a sequence of LF/CRLF-terminated lines, each a valid JSON-RPC message "
    "(request/notification/result/error; text from ASCII, 2/3/4-byte UTF-8, U+0085, U+2028/2029, escaped \\n; both ensure_ascii modes) or junk (invalid JSON, truncated JSON, "
    "JSON scalar, blank, envelope-invalid object, invalid UTF-8); cut into chunks at every cut-position set of size<=2 (exhaustive on short streams) or at Hypothesis-drawn "
    "positions biased to the inside of multi-byte characters and between CR and LF; delivered through an entered StdioClient whose child is a scripted process; "
    "oracle computed from the bytes alone: split on 0x0A, strip one CR, strict UTF-8, stdlib json, independent JSON-RPC grammar -> expected message sequence (and notification sub-sequence), "
    "plus a liveness probe line at the end; non-trivial = a cut falls inside a multi-byte character or inside CRLF, or a junk line sits between two valid lines, or a separator-like "
    "character occurs inside a JSON string; distinct = distinct (stream, cuts, delivery)"
    "; round 8: one-shot per-request streams registered for the ids in the stream; the child already exited (return code known) while its output is still being read"
    "; added in rounds 6-7 of the seeded changes: junk lines that begin with a whole document; a line just below/above 1 and 4 MiB (thorough: 8, 16) in three read patterns"
)
ASSUMPTIONS = [
    "a JSON array line is a batch (C13's subject): only [] and arrays of scalars are used as junk here",
    "an unterminated tail at EOF may or may not be delivered",
    "at most 100 notifications per stream (the notification stream is a bounded best-effort broadcast)",
    "scripted child process (anyio.open_process patched); chunk boundaries are exactly the generated ones",
]
EXHAUSTIVE = {"quick": False, "thorough": False}
META = {
    "text": "Reference NDJSON splitter over bytes vs the stdio reader for generated streams under exhaustive (short streams) and generated (long streams) chunkings, with a liveness probe; failures are bucketed into chunk-dependence, isolation and junk-acceptance root causes.",
    "technique": "bounded-exhaustive cut positions + Hypothesis streams/cuts (+ Atheris in thorough); oracle = independent byte-level NDJSON/JSON-RPC reference",
}

PROBE = {"jsonrpc": "2.0", "method": "probe/alive", "params": {"n": 1}}
PROBE_LINE = (json.dumps(PROBE) + "\n").encode()


def reference(stream: bytes) -> Tuple[List[Any], List[Dict[str, Any]], bool]:
    """(expected messages, per-line info, has_unterminated_tail)."""
    parts = stream.split(b"\n")
    tail = parts[-1]
    lines = parts[:-1]
    expected: List[Any] = []
    info: List[Dict[str, Any]] = []
    for raw in lines:
        if raw.endswith(b"\r"):
            raw = raw[:-1]
        rec: Dict[str, Any] = {"raw": raw, "valid": False, "why": ""}
        try:
            text = raw.decode("utf-8")
        except UnicodeDecodeError:
            rec["why"] = "not-utf8"
            info.append(rec)
            continue
        if not text.strip():
            rec["why"] = "blank"
            info.append(rec)
            continue
        try:
            val = json.loads(text)
        except Exception:
            rec["why"] = "not-json"
            info.append(rec)
            continue
        rec["value"] = val
        if isinstance(val, list):
            rec["why"] = "array"
            # batch semantics (no version negotiated => batches accepted): valid members in order
            members = [m for m in val if classify(m)[0] is not None]
            expected.extend(members)
            rec["valid"] = bool(members)
            info.append(rec)
            continue
        kind, why = classify(val)
        if kind is None:
            rec["why"] = "not-a-message:" + why
            info.append(rec)
            continue
        rec["valid"] = True
        rec["kind"] = kind
        expected.append(val)
        info.append(rec)
    return expected, info, len(tail) > 0


def _utf8_char_spans(stream: bytes) -> List[Tuple[int, int]]:
    spans = []
    i = 0
    n = len(stream)
    while i < n:
        b = stream[i]
        if b >= 0xF0 and b < 0xF8:
            L = 4
        elif b >= 0xE0:
            L = 3
        elif b >= 0xC0:
            L = 2
        else:
            L = 1
        if L > 1:
            spans.append((i, min(i + L, n)))
        i += L if L > 1 else 1
    return spans


def classify_case(stream: bytes, cuts: List[int], info: List[Dict[str, Any]]) -> Tuple[bool, Tuple[str, ...]]:
    spans = _utf8_char_spans(stream)
    cut_in_char = any(a < c < b for c in cuts for a, b in spans)
    cut_in_crlf = any(0 < c < len(stream) and stream[c - 1 : c + 1] == b"\r\n" for c in cuts)
    valid_idx = [i for i, r in enumerate(info) if r["valid"]]
    junk_between = any((not r["valid"]) and valid_idx and valid_idx[0] < i < valid_idx[-1] for i, r in enumerate(info))
    sep_in_string = any(r["valid"] and (b"\\n" in r["raw"] or "\u0085".encode() in r["raw"] or "\u2028".encode() in r["raw"] or "\u2029".encode() in r["raw"] or b"\\u2028" in r["raw"]) for r in info)
    classes = []
    if cut_in_char:
        classes.append("cut-in-multibyte-char")
    if cut_in_crlf:
        classes.append("cut-in-crlf")
    if junk_between:
        classes.append("junk-between-valid")
    if sep_in_string:
        classes.append("separator-like-in-string")
    classes.append(f"chunks:{min(len(cuts) + 1, 4)}")
    return bool(cut_in_char or cut_in_crlf or junk_between or sep_in_string), tuple(classes)


def _lenient_sig(extras: List[Any], info: List[Dict[str, Any]]) -> str:
    """root cause of 'something was delivered that is not a valid line': which kind of junk was accepted"""
    sig = "junk-delivered-as-message"
    sigs = []
    for e in extras:
        for rec in info:
            v = rec.get("value")
            if rec["valid"] or not isinstance(v, dict):
                continue
            if not (strict_eq(e, v) or strict_eq(e, {"jsonrpc": "2.0", **v})):
                continue
            if not any(k in v for k in ("method", "result", "error")):
                sigs.append("object-that-is-no-message-delivered")
            elif "jsonrpc" not in v:
                sigs.append("object-without-jsonrpc-member-delivered-as-message")
            elif v.get("jsonrpc") != "2.0":
                sigs.append("object-with-wrong-jsonrpc-version-delivered-as-message")
            elif isinstance(v.get("error"), dict):
                sigs.append("malformed-error-object-delivered-as-message")
            else:
                sigs.append("envelope-invalid-object-delivered-as-message")
            break
    if sigs:
        # one root cause per report: prefer the rarer classes so they are not masked
        order = ["object-that-is-no-message-delivered", "malformed-error-object-delivered-as-message", "envelope-invalid-object-delivered-as-message",
                 "object-with-wrong-jsonrpc-version-delivered-as-message", "object-without-jsonrpc-member-delivered-as-message"]
        sig = sorted(set(sigs), key=order.index)[0]
    return sig


def run_library(stream: bytes, cuts: List[int], as_str: bool, probe: bool, req_streams: Optional[List[str]] = None, exited_after: Optional[int] = None) -> Dict[str, Any]:
    from chuk_mcp.transports.stdio.stdio_client import StdioClient

    procs: List[FakeProcess] = []
    got: List[Any] = []
    notes: List[Any] = []
    result: Dict[str, Any] = {}

    async def main():
        with patched_open_process(procs):
            client = StdioClient(stdio_params())
            async with client:
                proc = procs[0]
                read, _w = client.get_streams()
                for rid in req_streams or []:
                    # the application asked for a one-shot stream per request it has outstanding (answers go there AND to the read stream)
                    client.new_request_stream(rid)

                async def consume(src, dst):
                    try:
                        async for m in src:
                            dst.append(m)
                    except Exception:
                        pass

                t1 = asyncio.ensure_future(consume(read, got))
                t2 = asyncio.ensure_future(consume(client.notifications, notes))
                pos = [0] + sorted(set(c for c in cuts if 0 < c < len(stream))) + [len(stream)]
                for k_, (a, b) in enumerate(zip(pos, pos[1:])):
                    chunk: Any = stream[a:b]
                    if as_str:
                        chunk = chunk.decode("utf-8")
                    proc.stdout.feed(chunk)
                    await asyncio.sleep(0.001)
                    if exited_after is not None and k_ == exited_after % (len(pos) - 1):
                        # the child has exited (and been reaped) while the rest of what it wrote still sits in the pipe
                        proc.returncode = 0
                        proc._exited.set()
                if probe:
                    proc.stdout.feed(PROBE_LINE)
                await asyncio.sleep(0.05)
                result["n_before_eof"] = len(got)
                proc.stdout.close()
                await asyncio.sleep(0.05)
                for t in (t1, t2):
                    t.cancel()
                    try:
                        await t
                    except BaseException:
                        pass

    run_virtual(main)
    result["got"] = [m.model_dump(exclude_none=True) if hasattr(m, "model_dump") else m for m in got]
    result["notes"] = [m.model_dump(exclude_none=True) if hasattr(m, "model_dump") else m for m in notes]
    return result


def check(case: Dict[str, Any]) -> Outcome:
    if "fuzz" in case:
        from ..fuzz.job import check_fuzz_case

        return check_fuzz_case(case)
    if case.get("real"):
        return check_real(case)
    out = Outcome()
    if "huge" in case:
        # a compact description of a stream with one very long line: [bytes of the long line, first read, later reads]
        size, first, step = case["huge"]
        small = [('{"jsonrpc":"2.0","method":"n/%d","params":{"t":"\u00e9"}}\n' % k).encode("utf-8") for k in range(6)]
        head = b'{"jsonrpc":"2.0","id":1,"result":{"blob":"'
        long_line = head + b"x" * max(0, size - len(head) - 4) + b'"}}\n'
        stream = b"".join(small[:2]) + long_line + b"".join(small[2:])
        start = len(small[0]) + len(small[1])
        cuts = [start + first] + list(range(start + first + step, len(stream), step))
        case = dict(case, stream=stream, cuts=cuts)
    stream: bytes = case["stream"]
    cuts: List[int] = sorted(case.get("cuts", []))
    as_str = bool(case.get("as_str", False))
    expected, info, has_tail = reference(stream)
    if as_str:
        try:
            stream.decode("utf-8")
        except UnicodeDecodeError:
            as_str = False
        spans = _utf8_char_spans(stream)
        cuts = [c for c in cuts if not any(a < c < b for a, b in spans)]  # str chunks cannot split a character
    out.nontrivial, out.classes = classify_case(stream, cuts, info)
    out.classes = out.classes + (("str-chunks",) if as_str else ("byte-chunks",)) + ((f"line-of-{case['huge'][0] >> 20}MiB-class",) if "huge" in case else ())
    if "huge" in case:
        out.nontrivial = True
    probe = not has_tail
    try:
        rs = None
        if case.get("request_streams"):
            rs = sorted({str(w_["id"]) for w_ in expected if isinstance(w_, dict) and w_.get("id") is not None})
            out.classes = out.classes + ("per-request-streams-registered",)
        if "exited_after" in case:
            out.classes = out.classes + ("child-exited-with-output-still-in-the-pipe",)
            out.nontrivial = True
        r = run_library(stream, cuts, as_str, probe, rs, case.get("exited_after"))
    except Exception as e:  # noqa
        out.fail("stdio-client-raised", f"{type(e).__name__}: {e}")
        return out
    got: List[Any] = r["got"]
    want = list(expected) + ([PROBE] if probe else [])
    tail_extra: List[Any] = []
    if has_tail:
        # the tail may or may not be delivered
        try:
            tv = json.loads(stream.split(b"\n")[-1].decode("utf-8"))
            if classify(tv)[0] is not None:
                tail_extra = [tv]
        except Exception:
            pass

    def same(a: List[Any], b: List[Any]) -> bool:
        return len(a) == len(b) and all(strict_eq(x, y) for x, y in zip(a, b))

    ok = same(got, want) or (has_tail and same(got, want + tail_extra))
    if not ok:
        spans = _utf8_char_spans(stream)
        cut_in_char = any(a < c < b for c in cuts for a, b in spans)
        alive = bool(got) and strict_eq(got[-1], PROBE) if probe else True
        not_utf8 = any(rec["why"] == "not-utf8" for rec in info)
        # what was delivered beyond the expected sequence?
        extras = [g for g in got if not any(strict_eq(g, w) for w in want + tail_extra)]
        missing = [w for w in want if not any(strict_eq(g, w) for g in got)]
        if probe and not alive and cut_in_char and not as_str:
            sig = "reader-killed-by-chunk-boundary-inside-utf8-character"
        elif probe and not alive and not_utf8:
            sig = "reader-killed-by-undecodable-line"
        elif probe and not alive:
            sig = "reader-stopped-before-end-of-stream"
        elif extras and not missing:
            sig = _lenient_sig(extras, info)
        elif missing and not extras:
            sig = "valid-line-not-delivered"
        elif same(sorted(map(json.dumps, got)), sorted(map(json.dumps, want))):
            sig = "delivery-order-differs"
        else:
            sig = "delivered-content-differs-from-line"
        out.fail(sig, f"cuts={cuts} got={json.dumps(got)[:300]} want={json.dumps(want)[:300]} stream={stream[:200]!r}")
        return out
    # notifications sub-sequence
    want_notes = [w for w in want if classify(w)[0] == "notification"]
    if len(want_notes) <= 100:
        gn = r["notes"]
        if not (same(gn, want_notes) or (has_tail and same(gn, want_notes + [t for t in tail_extra if classify(t)[0] == "notification"]))):
            out.fail("notification-stream-differs", f"got {json.dumps(gn)[:300]} want {json.dumps(want_notes)[:300]}")
    return out


# --------------------------------------------------------------------------------------- generators

_txt = st.text(alphabet=st.one_of(st.characters(min_codepoint=0x20, max_codepoint=0x7E), st.sampled_from(list("\u00e9\u07ff\u20ac\u0085\u2028\u2029\U0001F600\U0010FFFF\u00f1\u65e5"))), max_size=8)
_payload = st.dictionaries(_txt, st.one_of(_txt, st.integers(-5, 2**53), st.none(), st.booleans(), st.lists(_txt, max_size=2)), max_size=3)
_id = st.one_of(st.integers(0, 99), st.sampled_from(["a", "é", "123", "r-\U0001F600"]))


@st.composite
def message_line(draw) -> bytes:
    k = draw(st.sampled_from(["request", "notification", "result", "error"]))
    if k == "request":
        w: Dict[str, Any] = {"jsonrpc": "2.0", "id": draw(_id), "method": draw(st.sampled_from(["roots/list", "sampling/createMessage", "é/x"])), "params": draw(_payload)}
    elif k == "notification":
        w = {"jsonrpc": "2.0", "method": draw(st.sampled_from(["notifications/message", "notifications/progress", "n/é"])), "params": draw(_payload)}
    elif k == "result":
        w = {"jsonrpc": "2.0", "id": draw(_id), "result": draw(_payload)}
    else:
        w = {"jsonrpc": "2.0", "id": draw(_id), "error": {"code": draw(st.integers(-32700, 10)), "message": draw(_txt)}}
    if draw(st.integers(0, 5)) == 0:
        w["x-extra"] = draw(_txt)
    ensure_ascii = draw(st.booleans())
    sep = draw(st.sampled_from([(",", ":"), (", ", ": ")]))
    text = json.dumps(w, ensure_ascii=ensure_ascii, separators=sep)
    if draw(st.integers(0, 4)) == 0:
        text = " " + text + " "
    return text.encode("utf-8")


JUNK = [
    b"not json", b"{", b'{"jsonrpc":"2.0","id":1,"method":"x"', b"5", b'"str"', b"null", b"true", b"", b"   ", b"[]", b"[1,2]",
    b'{"jsonrpc":"2.0","id":1}', b'{"jsonrpc":"2.0","id":1,"result":{},"error":{"code":1,"message":"x"}}', b'{"jsonrpc":"2.0","method":5}',
    b"[", b"[1,", b'{"a":', b'{"jsonrpc":"2.0","method":"notifications/message","params":', b'{"jsonrpc":"2.0","id":3,"result":{"items":[',
    "{\"jsonrpc\":\"2.0\",\"method\":\"é".encode(), b"\xff\xfe", b'{"jsonrpc":"2.0","method":"x","params":{"a":"\xc3"}}', b"}{", b"\xe2\x80\xa8",
]
LENIENT_JUNK = [b"{}", b'{"foo":1}', b'{"jsonrpc":"1.0","id":1,"method":"x"}', b'{"id":1,"method":"x"}', b'{"jsonrpc":"2.0","id":1,"error":{"code":"x","message":"m"}}']


@st.composite
def streams(draw, max_lines: int = 8, lenient: bool = True) -> bytes:
    n = draw(st.integers(1, max_lines))
    out = b""
    for _ in range(n):
        r = draw(st.integers(0, 10))
        if r <= 5:
            line = draw(message_line())
        elif r == 10:
            # a line that BEGINS with a whole document but is not one: two documents glued together (a child that lost a
            # newline), or a document followed by log output - junk as a whole, wherever the pipe happens to cut it
            line = draw(message_line()) + draw(st.sampled_from([b"", b" ", b",", b" trailing log output", b"}", b"]"])) + draw(st.one_of(st.just(b""), message_line()))
            try:
                json.loads(line.decode("utf-8"))
                line = b"}{"
            except ValueError:
                pass
        elif r == 6:
            # a message cut short at an arbitrary byte (a child that died or was interrupted mid-write)
            whole = draw(message_line())
            line = whole[: draw(st.integers(1, max(1, len(whole) - 1)))]
            if b"\n" in line or b"\r" in line:
                line = draw(st.sampled_from(JUNK))
        elif r <= 8 or not lenient:
            line = draw(st.sampled_from(JUNK))
        else:
            line = draw(st.sampled_from(LENIENT_JUNK))
        out += line + draw(st.sampled_from([b"\n", b"\n", b"\r\n"]))
    if draw(st.integers(0, 9)) == 0:
        out += draw(st.sampled_from([b'{"jsonrpc":"2.0","method":"tail"}', b"{", b"x"]))
    return out


@st.composite
def cases(draw, max_lines: int = 8):
    s = draw(streams(max_lines))
    spans = _utf8_char_spans(s)
    interesting = ([c for a, b in spans for c in range(a + 1, b)] + [i + 1 for i in range(len(s) - 1) if s[i : i + 2] == b"\r\n"] + [i + 1 for i in range(len(s)) if s[i : i + 1] == b"\n"]
                   + [i + 1 for i in range(len(s) - 1) if s[i : i + 1] in (b"}", b"]")])  # just after a closing bracket: the text so far may be a whole document
    interesting = [c for c in interesting if 1 <= c <= len(s) - 1] if len(s) > 1 else []
    pos = st.integers(1, max(1, len(s) - 1))
    if interesting:
        pos = st.one_of(st.sampled_from(interesting), pos)
    cuts = draw(st.lists(pos, max_size=6, unique=True))
    case = {"stream": s, "cuts": sorted(cuts), "as_str": draw(st.integers(0, 5)) == 0}
    if draw(st.integers(0, 3)) == 0:
        case["request_streams"] = True
    if draw(st.integers(0, 3)) == 0:
        case["exited_after"] = draw(st.integers(0, 6))
    return case


def job_hyp(col: Collector, seed: int, tier: str, shard: int, n: int, max_lines: int = 8) -> None:
    hyp_run(col, seed * 1000 + shard, cases(max_lines), check, n)


SHORT_STREAMS: List[bytes] = [
    '{"jsonrpc":"2.0","method":"n/é","params":{"k":"\U0001F600\u2028"}}\r\n{"jsonrpc":"2.0","id":1,"result":{}}\n'.encode(),
    'junk é\n{"jsonrpc":"2.0","id":"日","result":{"a":"\\n"}}\r\n'.encode(),
    b'{"jsonrpc":"2.0","method":"a"}\n\xff\xfe\r\n{"jsonrpc":"2.0","method":"b"}\n',
    '{"jsonrpc":"2.0","id":7,"error":{"code":-1,"message":"ñ€"}}\n{}\n'.encode(),
    b'{"jsonrpc":"2.0","method":"a"} log: started\n{"jsonrpc":"2.0","id":1,"result":[{}]}{"jsonrpc":"2.0","method":"b"}\r\n{"jsonrpc":"2.0","method":"c"}\n',
]


def job_exhaustive(col: Collector, seed: int, tier: str, shard: int, nshards: int, k: int) -> None:
    i = 0
    for s in SHORT_STREAMS:
        n = len(s)
        for r in range(0, k + 1):
            for cuts in itertools.combinations(range(1, n), r):
                i += 1
                if i % nshards != shard:
                    continue
                case = {"stream": s, "cuts": list(cuts), "as_str": False}
                col.record(case, check(case))
    if shard == 0:
        # answers for which the application registered one-shot streams, followed by more lines in the same read
        note = b'{"jsonrpc":"2.0","method":"notifications/message","params":{"level":"info","data":"%d"}}\n'
        fixed = (b'{"jsonrpc":"2.0","id":7,"result":{"ok":true}}\n' + note % 1 + note % 2 + b'{"jsonrpc":"2.0","id":"a","error":{"code":-1,"message":"e"}}\r\n' + note % 3
                 + b'{"jsonrpc":"2.0","id":7,"method":"roots/list"}\n' + b'{"jsonrpc":"2.0","id":8,"result":{}}\n' + note % 4)
        for cuts in [[]] + [[c] for c in range(1, len(fixed))] + [[c, c + 50] for c in range(1, len(fixed) - 50, 7)]:
            case = {"stream": fixed, "cuts": cuts, "as_str": False, "request_streams": True}
            col.record(case, check(case))
            if len(cuts) == 1:
                case = {"stream": fixed, "cuts": cuts, "as_str": False, "exited_after": 0}
                col.record(case, check(case))
        col.exhaustive_parts.append(f"a fixed {len(fixed)}-byte stream of answers with per-request streams registered, notifications behind each: no cut, every single cut, pairs of cuts")
    if shard == 0:
        col.exhaustive_parts.append(f"every cut-position set of size<={k} on {len(SHORT_STREAMS)} fixed streams of {[len(s) for s in SHORT_STREAMS]} bytes")


def job_long(col: Collector, seed: int, tier: str, shard: int, n: int) -> None:
    """long lines (> 64 KiB) and many lines, with seeded cuts."""
    big = st.builds(
        lambda t, k: ('{"jsonrpc":"2.0","method":"notifications/message","params":{"data":"' + (t * k) + '"}}\n').encode(),
        st.sampled_from(["abc", "é", "\U0001F600x", "\u2028y"]), st.sampled_from([3000, 25000, 70000]),
    )

    @st.composite
    def c(draw):
        s = b"".join(draw(st.lists(st.one_of(big, message_line().map(lambda b: b + b"\n")), min_size=1, max_size=4)))
        cuts = draw(st.lists(st.integers(1, len(s) - 1), max_size=12, unique=True))
        return {"stream": s, "cuts": sorted(cuts), "as_str": False}

    hyp_run(col, seed * 1000 + 300 + shard, c(), check, n)


def job_many(col: Collector, seed: int, tier: str, shard: int, n: int) -> None:
    """many lines (beyond the 100-slot stream buffers) arriving in few reads: the delivered sequence must not
    depend on how many lines one read happens to carry."""

    @st.composite
    def c(draw):
        k = draw(st.sampled_from([101, 120, 150, 266, 400]))
        kinds = draw(st.sampled_from(["notifications", "responses", "mixed"]))
        lines = []
        for i in range(k):
            if kinds == "notifications" or (kinds == "mixed" and i % 3):
                lines.append(json.dumps({"jsonrpc": "2.0", "method": "notifications/message", "params": {"level": "info", "data": i}}).encode())
            else:
                lines.append(json.dumps({"jsonrpc": "2.0", "id": i, "result": {"n": i}}).encode())
        for j in draw(st.lists(st.integers(0, k - 1), max_size=3)):
            lines[j] = draw(st.sampled_from(JUNK))
        s = b"\n".join(lines) + b"\n"
        how = draw(st.sampled_from(["one-read", "two-reads", "4k-reads", "random"]))
        if how == "one-read":
            cuts: List[int] = []
        elif how == "two-reads":
            cuts = [draw(st.integers(1, len(s) - 1))]
        elif how == "4k-reads":
            cuts = list(range(4096, len(s), 4096))
        else:
            cuts = draw(st.lists(st.integers(1, len(s) - 1), max_size=8, unique=True))
        return {"stream": s, "cuts": sorted(cuts), "as_str": False}

    hyp_run(col, seed * 1000 + 350 + shard, c(), check, n)


REAL_WRITER = r'''
import sys, os, json, time
spec = json.load(open(sys.argv[1]))
for hx in spec["chunks"]:
    os.write(1, bytes.fromhex(hx))
    time.sleep(0.003)
# stay alive until the client closes our stdin
sys.stdin.read()
'''


def check_real(case: Dict[str, Any]) -> Outcome:
    """Same oracle, but the bytes come from a real child process through real pipes (the OS decides
    the read boundaries; the generated cuts are the child's write boundaries)."""
    import shutil
    import sys
    import tempfile

    import anyio as _anyio

    from chuk_mcp.transports.stdio.parameters import StdioParameters
    from chuk_mcp.transports.stdio.stdio_client import StdioClient

    out = Outcome()
    stream: bytes = case["stream"]
    cuts = sorted(c for c in case.get("cuts", []) if 0 < c < len(stream))
    expected, info, has_tail = reference(stream)
    if has_tail:
        stream = stream + b"\n"
        expected, info, has_tail = reference(stream)
    out.nontrivial, out.classes = classify_case(stream, cuts, info)
    out.classes = out.classes + ("real-child",)
    d = tempfile.mkdtemp(prefix="vpbt_c05_")
    try:
        pos = [0] + cuts + [len(stream)]
        chunks_ = [stream[a:b] for a, b in zip(pos, pos[1:]) if b > a] + [PROBE_LINE]
        with open(os.path.join(d, "w.py"), "w") as fh:
            fh.write(REAL_WRITER)
        with open(os.path.join(d, "spec.json"), "w") as fh:
            json.dump({"chunks": [c.hex() for c in chunks_]}, fh)
        got: List[Any] = []

        async def main():
            async with StdioClient(StdioParameters(command=sys.executable, args=[os.path.join(d, "w.py"), os.path.join(d, "spec.json")])) as client:
                r, _w = client.get_streams()
                with _anyio.move_on_after(10):
                    async for m in r:
                        v = m.model_dump(exclude_none=True) if hasattr(m, "model_dump") else m
                        got.append(v)
                        if strict_eq(v, PROBE):
                            break

        _anyio.run(main)
        want = list(expected) + [PROBE]
        if len(got) != len(want) or not all(strict_eq(a, b) for a, b in zip(got, want)):
            alive = bool(got) and strict_eq(got[-1], PROBE)
            sig = "real-child:reader-stopped-before-end-of-stream" if not alive else "real-child:delivered-sequence-differs-from-lines"
            extras = [g for g in got if not any(strict_eq(g, w_) for w_ in want)]
            missing = [w_ for w_ in want if not any(strict_eq(g, w_) for g in got)]
            if alive and extras and not missing:
                sig = _lenient_sig(extras, info)
            out.fail(sig, f"cuts={cuts} got={json.dumps(got)[:300]} want={json.dumps(want)[:300]}")
    finally:
        shutil.rmtree(d, ignore_errors=True)
    return out


def job_real(col: Collector, seed: int, tier: str, shard: int, n: int) -> None:
    import os as _os

    hyp_run(col, seed * 1000 + 600 + shard, cases(5).map(lambda c: dict(c, real=True, as_str=False)), check, n)


def job_atheris(col: Collector, seed: int, tier: str, seconds: int, corpus: str) -> None:
    from ..fuzz.job import run_fuzz_job

    run_fuzz_job(col, "stdio", seconds, seed, corpus)


def job_huge(col: Collector, seed: int, tier: str, shard: int) -> None:
    """one well-formed line just below and just above 1, 4, 8 and 16 MiB between small ones, read in 64 KiB pieces that
    are not aligned to its start (and in two other ways): sizes where a length guard or a buffer policy would sit"""
    sizes = []
    for mib in ((1, 4) if tier == "quick" else (1, 4, 8, 16)):
        n = mib << 20
        sizes += [n - 60000, n - 100, n + 100]
    k = 0
    for size in sizes:
        for first, step in ((1000, 65536), (65536, 65536), (size // 3, size // 3 + 7)):
            k += 1
            if k % 4 != shard:
                continue
            case = {"huge": [size, first, step]}
            col.record(case, check(case))
    if shard == 0:
        col.exhaustive_parts.append(f"a line of {sizes} bytes between small lines x 3 read patterns (64 KiB reads offset by 1000 bytes, aligned, thirds)")


JOBS = {"huge": job_huge, "many": job_many, "real": job_real, "atheris": job_atheris, "hyp": job_hyp, "exhaustive": job_exhaustive, "long": job_long}


def jobs(tier: str):
    if tier == "quick":
        return [("hyp", {"shard": s, "n": 250}) for s in range(8)] + [("exhaustive", {"shard": s, "nshards": 7, "k": 2}) for s in range(7)] + [("long", {"shard": 0, "n": 20}), ("many", {"shard": 0, "n": 25})] + [("huge", {"shard": s}) for s in range(4)]
    return (
        (
        [("hyp", {"shard": s, "n": 6000}) for s in range(6)]
        + [("exhaustive", {"shard": s, "nshards": 8, "k": 3}) for s in range(8)]
        + [("long", {"shard": s, "n": 300}) for s in range(2)]
        + [("many", {"shard": s, "n": 300}) for s in range(2)]
        + [("huge", {"shard": s}) for s in range(4)]
    )
        + [("atheris", {"seconds": 150, "corpus": "seeded"}), ("atheris", {"seconds": 150, "corpus": "empty"})]
        + [("real", {"shard": s, "n": 40}) for s in range(4)]
    )


def shrink(signature: str, seed: int):
    return hyp_shrink(seed * 1000, cases(4), check, signature, 1500)
