"""C10 - typed protocol models are lossless views of the wire and use wire names."""
from __future__ import annotations

import asyncio
import json
from typing import Any, Dict, List, Optional, Tuple

from hypothesis import strategies as st

from ..backend_worker import Worker, get_workers
from ..jsonrpc_ref import strict_eq
from ..modelgen import discover_models, fields_of, wire_strategy
from ..runner import Collector, Outcome, hyp_run, hyp_shrink

ID = "C10"
LEVEL = "exploration"
RULE = (
    "(a) case = (model class discovered by walking chuk_mcp.protocol.*, valid wire object W with every alias populated and random extra members, backend in {Pydantic, fallback}); "
    "D = Model.model_validate(W).model_dump(by_alias=True, exclude_none=True) computed in a worker process of that backend; oracle: recursively every member of W is in D with an equal "
    "value (unknown members included, aliased members under their wire names) and every member of D not in W is a declared field holding its declared default; "
    "(b) case = (library function that turns a model into wire data: tool_result_to_dict, content_to_dict, ElicitationHandler.request_user_input, handle_roots_list_request, "
    "send_completion_complete, send_sampling_create_message, sample_* helpers, discovered builders) applied to models built from generated wire objects; oracle: the produced wire "
    "data contains every member of the input under its wire name and no key that is the Python attribute name of an aliased field (schema_, meta); "
    "non-trivial = W has >=1 alias populated or >=1 extra member; distinct = distinct (class/function, W, backend)"
    "; added in rounds 6-7 of the seeded changes: respelt member names as unknown members; plain dump before the first wire dump (fresh process); equal containers shared by reference; all discovered create_* builders"
)
ASSUMPTIONS = [
    "valid wire object as in C09 (type-directed from the model's own annotations; optional members absent rather than null; nulls only nested inside Any/Dict payloads)",
    "number-typed fields are generated as floats so that equality is exact",
    "payload alphabets never contain the words schema_ / meta as ordinary keys, so such a key in the output can only be a leaked attribute name",
]
EXHAUSTIVE = {"quick": False, "thorough": False}
META = {
    "text": "Round-trip containment oracle over generated wire objects for every discovered model class in both backends (separate processes), and a wire-name oracle over every library-side serialiser reachable with model arguments.",
    "technique": "Hypothesis type-directed generators; round-trip/containment oracle in two backend worker processes; introspective enumeration of serialisers",
}

_MODELS: Optional[Dict[str, type]] = None


def models() -> Dict[str, type]:
    global _MODELS
    if _MODELS is None:
        _MODELS = discover_models()
    return _MODELS


def workers() -> Tuple[Worker, Worker]:
    ws = get_workers(((False, True), (True, True)))
    return ws[0], ws[1]


def contained(w: Any, d: Any, path: str = "$") -> Optional[str]:
    """None if every member of w is in d with an equal value (recursively); else a description."""
    if isinstance(w, dict):
        if not isinstance(d, dict):
            return f"{path}: object became {type(d).__name__}"
        for k, v in w.items():
            if k not in d:
                return f"{path}.{k}: member lost (value {v!r})"
            r = contained(v, d[k], f"{path}.{k}")
            if r:
                return r
        return None
    if isinstance(w, list):
        if not isinstance(d, list) or len(d) != len(w):
            return f"{path}: list changed ({w!r} -> {d!r})"
        for i, (x, y) in enumerate(zip(w, d)):
            r = contained(x, y, f"{path}[{i}]")
            if r:
                return r
        return None
    if not strict_eq(w, d):
        return f"{path}: {w!r} ({type(w).__name__}) became {d!r} ({type(d).__name__})"
    return None


def _model_for(ann: Any, value: Any) -> Optional[type]:
    """The model class a sub-object was validated as (by annotation; unions resolved by 'type' discriminator)."""
    import inspect
    import typing

    from chuk_mcp.protocol.mcp_pydantic_base import McpPydanticBase

    origin = typing.get_origin(ann)
    if inspect.isclass(ann) and issubclass(ann, McpPydanticBase):
        return ann
    if origin is typing.Union:
        cands = [a for a in typing.get_args(ann) if inspect.isclass(a) and issubclass(a, McpPydanticBase)]
        if isinstance(value, dict):
            for c in cands:
                fs = {f["name"]: f for f in fields_of(c)}
                t = fs.get("type")
                if t is not None and "type" in value and t["default"] == value["type"]:
                    return c
            for c in cands:
                req = [f["wire"] for f in fields_of(c) if f["required"]]
                if all(r in value for r in req):
                    return c
    return None


def added_ok(cls: type, w: Any, d: Any, path: str = "$") -> Optional[str]:
    """Every member of d that is not in w must be a declared field holding its declared default."""
    import typing

    if not (isinstance(w, dict) and isinstance(d, dict)):
        return None
    fs = {f["wire"]: f for f in fields_of(cls)}
    for k, v in d.items():
        if k not in w:
            f = fs.get(k)
            if f is None:
                names = {ff["name"]: ff for ff in fields_of(cls)}
                if k in names and names[k]["alias"]:
                    return f"{path}.{k}: attribute name of aliased field (wire name {names[k]['alias']!r}) appears in the dump"
                return f"{path}.{k}: member invented (value {v!r})"
            if f["required"]:
                return f"{path}.{k}: required member appeared from nowhere"
            dflt = f["default"]
            if hasattr(dflt, "model_dump"):
                dflt = dflt.model_dump(by_alias=True, exclude_none=True)
            if not strict_eq(v, dflt):
                return f"{path}.{k}: added member {v!r} is not the declared default {f['default']!r}"
        else:
            f = fs.get(k)
            if f is None:
                continue
            ann = f["annotation"]
            sub = _model_for(ann, w[k])
            if sub is not None:
                r = added_ok(sub, w[k], v, f"{path}.{k}")
                if r:
                    return r
            else:
                args = typing.get_args(ann)
                # List[Model] / Optional[List[Model]]
                inner = None
                for a in [ann] + list(args):
                    if typing.get_origin(a) in (list, List):
                        ia = typing.get_args(a)
                        if ia:
                            inner = ia[0]
                if inner is not None and isinstance(w[k], list) and isinstance(v, list):
                    for i, (x, y) in enumerate(zip(w[k], v)):
                        m = _model_for(inner, x)
                        if m is not None:
                            r = added_ok(m, x, y, f"{path}.{k}[{i}]")
                            if r:
                                return r
    return None


def leaked_attribute_names(o: Any, path: str = "$") -> Optional[str]:
    if isinstance(o, dict):
        for k, v in o.items():
            if k in ("schema_", "meta"):
                return f"{path}.{k}"
            r = leaked_attribute_names(v, f"{path}.{k}")
            if r:
                return r
    elif isinstance(o, list):
        for i, v in enumerate(o):
            r = leaked_attribute_names(v, f"{path}[{i}]")
            if r:
                return r
    return None


def _all_keys(o: Any) -> set:
    ks: set = set()
    if isinstance(o, dict):
        for k, v in o.items():
            ks.add(k)
            ks |= _all_keys(v)
    elif isinstance(o, list):
        for v in o:
            ks |= _all_keys(v)
    return ks


def _has_alias_or_extra(cls: type, w: Dict[str, Any]) -> bool:
    def walk(o: Any) -> bool:
        if isinstance(o, dict):
            return any(k in ("_meta", "schema") or walk(v) for k, v in o.items())
        if isinstance(o, list):
            return any(walk(x) for x in o)
        return False

    names = {f["wire"] for f in fields_of(cls)}
    return walk(w) or any(k not in names for k in w)


# wire names the MCP schema fixes for members whose Python attribute name differs (pinned at the
# verified commit; the oracle must not learn them from the code it is checking)
PINNED_WIRE_NAMES: Dict[str, Dict[str, str]] = {
    "chuk_mcp.protocol.messages.resources.resource:Resource": {"meta": "_meta"},
    "chuk_mcp.protocol.messages.resources.resource_content:ResourceContent": {"meta": "_meta"},
    "chuk_mcp.protocol.messages.resources.resource_template:ResourceTemplate": {"meta": "_meta"},
    "chuk_mcp.protocol.messages.sampling.send_messages:CreateMessageResult": {"meta": "_meta"},
    "chuk_mcp.protocol.messages.tools.tool:Tool": {"meta": "_meta"},
    "chuk_mcp.protocol.messages.tools.tool_result:ToolResult": {"meta": "_meta"},
    "chuk_mcp.protocol.types.elicitation:ElicitationParams": {"schema_": "schema"},
    "chuk_mcp.protocol.types.tools:StructuredContent": {"schema_": "schema"},
}


def check_static() -> Outcome:
    out = Outcome(nontrivial=True, key="static-wire-names", classes=("static",))
    ms = models()
    for target, table in PINNED_WIRE_NAMES.items():
        cls = ms.get(target)
        if cls is None:
            out.fail("documented-model-missing", target)
            continue
        fs = {f["name"]: f for f in fields_of(cls)}
        for attr, wire in table.items():
            f = fs.get(attr)
            if f is None or f["alias"] != wire:
                out.fail("documented-wire-name-not-declared", f"{target}.{attr}: expected wire name {wire!r}, declared {None if f is None else f['alias']!r}")
    return out


def check(case: Dict[str, Any]) -> Outcome:
    if case.get("static"):
        return check_static()
    if case.get("part") == "b":
        return check_serialiser(case)
    if "seq" in case:
        return check_sequence(case)
    if "builder" in case:
        return check_builder(case)
    out = Outcome()
    target, w, backend = case["target"], case["data"], case.get("backend", "pydantic")
    wp, wf = workers()
    wk = wp if backend == "pydantic" else wf
    r = wk.request({"op": "validate", "cases": [(target, case.get("how", "validate"), w)]})[0]
    oracle_a(out, target, w, backend, r)
    if case.get("how") == "validate_shared":
        out.classes = tuple(out.classes) + ("equal-containers-shared-by-reference",)
    return out


def builders() -> Dict[str, Any]:
    """every public create_* function of the protocol packages (discovered by walking them)"""
    import importlib
    import inspect
    import pkgutil

    import chuk_mcp.protocol as root

    found: Dict[str, Any] = {}
    for mi in pkgutil.walk_packages(root.__path__, root.__name__ + "."):
        try:
            m = importlib.import_module(mi.name)
        except Exception:
            continue
        for name, fn in vars(m).items():
            if name.startswith("create_") and inspect.isfunction(fn) and fn.__module__ == m.__name__:
                found[f"{m.__name__}:{name}"] = fn
    return found


def _builder_kwargs(fn: Any) -> Optional[Dict[str, Any]]:
    """a JSON-able value for EVERY parameter (optional ones too), chosen by annotation and name"""
    import inspect
    import typing

    from ..helpers import synth_value

    try:
        hints = typing.get_type_hints(fn)
    except Exception:
        hints = {}
    kw: Dict[str, Any] = {}
    for pn, p_ in inspect.signature(fn).parameters.items():
        if p_.kind in (p_.VAR_POSITIONAL, p_.VAR_KEYWORD):
            continue
        ann = hints.get(pn, p_.annotation)
        try:
            v = synth_value(ann, pn)
        except TypeError:
            if p_.default is not inspect.Parameter.empty:
                continue
            return None
        if v == {} or (isinstance(v, str) and v == "x" and ("meta" in pn or "schema" in pn or "data" in pn)):
            v = {"k": {"n": [1, None]}, "progressToken": "tok-1"} if "meta" in pn else {"type": "object", "properties": {"a": {"type": "string"}}}
        if v == []:
            v = [{"type": "text", "text": "t"}] if "content" in pn else []
        kw[pn] = v
    return kw


def check_builder(case: Dict[str, Any]) -> Outcome:
    """a create_* builder called with every parameter populated: what it returns, serialised for the wire, must not
    contain Python attribute names where wire names belong, and `_meta` given to it must leave as `_meta`"""
    out = Outcome(nontrivial=True)
    name, backend = case["builder"], case.get("backend", "pydantic")
    out.classes = ("builder", f"backend:{backend}")
    fn = builders().get(name)
    if fn is None:
        out.classes = out.classes + ("builder-not-present",)
        out.nontrivial = False
        return out
    kw = _builder_kwargs(fn)
    if kw is None:
        out.classes = out.classes + ("builder-arguments-not-synthesised",)
        out.nontrivial = False
        return out
    wp, wf = workers()
    r = (wp if backend == "pydantic" else wf).request({"op": "build", "calls": [(name, kw)]})[0]
    if r[0] != "ok":
        out.classes = out.classes + ("builder-rejected-synthesised-arguments",)
        out.nontrivial = False
        return out
    res = r[1]
    short = name.split(":")[-1]
    for key in ("wire", "to_dict"):
        w = res.get(key)
        if w is None or (isinstance(w, (list, tuple)) and len(w) == 2 and w[0] == "$error"):
            continue
        leak = leaked_attribute_names(w)
        if leak:
            out.fail(f"attribute-name-instead-of-wire-name:builder:{short}", f"{short}(**{kw!r}) -> {key} has {leak}: {json.dumps(w, default=str)[:300]}")
            break
        for pn, v in kw.items():
            if "meta" in pn and isinstance(v, dict) and isinstance(w, dict) and w.get("_meta") != v:
                out.fail(f"meta-argument-not-on-the-wire-as-_meta:builder:{short}", f"{short}({pn}={v!r}) -> {json.dumps(w, default=str)[:300]}")
                break
    return out


def oracle_a(out: Outcome, target: str, w: Any, backend: str, r: Any) -> Outcome:
    cls = models()[target]
    out.nontrivial = _has_alias_or_extra(cls, w)
    out.classes = (f"backend:{backend}", f"result:{r[0]}")
    if r[0] != "accept":
        # valid traffic rejected is C09's subject; here it only weakens coverage
        out.nontrivial = False
        out.classes = out.classes + ("rejected-by-backend",)
        return out
    d = r[2]
    name = target.split(":")[-1]
    lost = contained(w, d)
    if lost:
        key = lost.split(":")[0]
        last = key.rsplit(".", 1)[-1].split("[")[0]
        kind = "aliased-member" if last in ("_meta", "schema") else ("extra-member" if last not in {f["wire"] for f in fields_of(cls)} and key.count(".") == 1 else "member")
        out.fail(f"wire-member-not-preserved:{kind}:{backend}", f"{name}: {lost}")
        return out
    # the same containment for the other dump modes (nulls kept: by_alias and exclude_none are independent flags)
    for key_, label in (("$dump_alias_only", "model_dump(by_alias=True)"), ("$dump_alias_json_mode", "model_dump(by_alias=True, exclude_none=True, mode='json')")):
        d2 = r[1].get(key_) if isinstance(r[1], dict) else None
        if d2 is None:
            continue
        if isinstance(d2, (list, tuple)) and len(d2) == 2 and d2[0] == "$error":
            if key_ == "$dump_alias_only":
                out.fail(f"dump-mode-raises:{backend}", f"{name}.{label}: {d2[1]}")
                return out
            continue  # mode= is a Pydantic-only argument
        lost2 = contained(w, d2)
        if lost2:
            last = lost2.split(":")[0].rsplit(".", 1)[-1].split("[")[0]
            kind = "aliased-member" if last in ("_meta", "schema") else "member"
            out.fail(f"wire-member-not-preserved:{kind}:{backend}:{key_[1:]}", f"{name}.{label}: {lost2}")
            return out
        leak = leaked_attribute_names(d2)
        if leak and not ({"schema_", "meta"} & _all_keys(w)):
            out.fail(f"attribute-name-in-dump:{backend}:{key_[1:]}", f"{name}.{label}: {leak}")
            return out
    # typed view: attribute access reflects the wire value of every declared member
    attrs = r[1].get("$attrs", {}) if isinstance(r[1], dict) else {}
    for f in fields_of(cls):
        if f["wire"] in w and f["name"] in attrs:
            miss = contained(w[f["wire"]], attrs[f["name"]], f"$.{f['name']}")
            if miss:
                out.fail(f"typed-attribute-does-not-reflect-wire-member:{backend}", f"{name}.{f['name']} (wire {f['wire']!r}): {miss}")
                return out
    inv = added_ok(cls, w, d)
    if inv:
        what = "attribute-name-in-dump" if "attribute name" in inv else "added-member-not-a-default"
        out.fail(f"{what}:{backend}", f"{name}: {inv}")
    return out


def check_sequence(case: Dict[str, Any]) -> Outcome:
    """Several (class, wire object) validations in ONE fresh backend process, in the given order:
    catches state that leaks between model classes (caches keyed too coarsely)."""
    backend = case.get("backend", "fallback")
    out = Outcome()
    wk = Worker(backend == "fallback", True)
    try:
        rs = wk.request({"op": "validate", "cases": [(e[0], e[2] if len(e) > 2 else "validate", e[1]) for e in case["seq"]]})
    finally:
        wk.close()
    nt = False
    for (t, w), r in zip([(e[0], e[1]) for e in case["seq"]], rs):
        o = Outcome()
        oracle_a(o, t, w, backend, r)
        nt = nt or o.nontrivial
        for sig, detail in o.failures:
            out.fail(sig + ":order-dependent" if not _fails_alone(t, w, backend) else sig, f"in sequence {[x[0].split(':')[-1] for x in case['seq']]}: {detail}")
        if o.failures:
            break
    out.nontrivial = nt
    out.classes = (f"sequence:{backend}", f"len:{min(len(case['seq']), 6)}") + (("plain-dump-before-wire-dump",) if any(len(e) > 2 and e[2] == "validate_plain_first" for e in case["seq"]) else ())
    return out


def _fails_alone(target: str, w: Any, backend: str) -> bool:
    wk = Worker(backend == "fallback", True)
    try:
        r = wk.request({"op": "validate", "cases": [(target, "validate", w)]})[0]
    finally:
        wk.close()
    o = Outcome()
    oracle_a(o, target, w, backend, r)
    return bool(o.failures)


# --------------------------------------------------------------------------------------- part (b)

T = "chuk_mcp.protocol.types"
M = "chuk_mcp.protocol.messages"
SERIALISERS: List[Dict[str, Any]] = [
    {"name": "tool_result_to_dict", "fn": f"{T}.tools:tool_result_to_dict", "models": [f"{T}.tools:ToolResult"], "mode": "apply"},
    {"name": "tool_result_to_dict(CallToolResult)", "fn": f"{T}.tools:tool_result_to_dict", "models": [f"{T}.tools:CallToolResult"], "mode": "apply"},
    {"name": "content_to_dict(TextContent)", "fn": f"{T}.content:content_to_dict", "models": [f"{T}.content:TextContent"], "mode": "apply"},
    {"name": "content_to_dict(ImageContent)", "fn": f"{T}.content:content_to_dict", "models": [f"{T}.content:ImageContent"], "mode": "apply"},
    {"name": "content_to_dict(EmbeddedResource)", "fn": f"{T}.content:content_to_dict", "models": [f"{T}.content:EmbeddedResource"], "mode": "apply"},
    {"name": "handle_roots_list_request", "fn": f"{M}.roots.send_messages:handle_roots_list_request", "models": [f"{M}.roots.send_messages:Root"], "mode": "apply-list", "kwargs": {"request_id": 7}, "where": ["result", "roots"]},
    {"name": "ElicitationHandler.request_user_input", "mode": "elicitation", "models": [f"{T}.elicitation:ElicitationParams"]},
    {"name": "send_completion_complete", "mode": "completion", "models": [f"{M}.completions.send_messages:ResourceReference", f"{M}.completions.send_messages:ArgumentInfo"]},
    {"name": "send_sampling_create_message", "mode": "sampling", "models": [f"{M}.sampling.send_messages:SamplingMessage", f"{M}.sampling.send_messages:ModelPreferences"]},
]


def check_serialiser(case: Dict[str, Any]) -> Outcome:
    out = Outcome()
    spec = next(s for s in SERIALISERS if s["name"] == case["serialiser"])
    ws: List[Any] = case["data"]
    backend = case.get("backend", "pydantic")
    out.nontrivial = any(_has_alias_or_extra(models()[mt], w) for mt, w in zip(spec["models"], ws) if isinstance(w, dict))
    out.classes = (f"b:{spec['name']}", f"backend:{backend}")
    mode = spec["mode"]
    produced: Any = None
    expect_inside: List[Tuple[Any, Any]] = []  # (input wire, produced sub-object)
    try:
        if mode in ("apply", "apply-list"):
            wp, wf = workers()
            wk = wp if backend == "pydantic" else wf
            margs = [(spec["models"][0], ws if mode == "apply-list" else ws[0])]
            kwargs = spec.get("kwargs", {})
            r = wk.request({"op": "apply", "calls": [(spec["fn"], margs, kwargs)]})[0]
            if r[0] != "ok":
                out.classes = out.classes + ("serialiser-raised",)
                out.nontrivial = False
                return out
            produced = r[1]
            sub = produced
            for k in spec.get("where", []):
                sub = sub[k]
            if mode == "apply-list":
                expect_inside = list(zip(ws, sub))
            else:
                expect_inside = [(ws[0], sub)]
        else:
            produced, expect_inside = _run_async_serialiser(mode, spec, ws)
            if produced is None:
                out.classes = out.classes + ("serialiser-raised",)
                out.nontrivial = False
                return out
    except Exception as e:  # noqa
        out.fail("harness-error-in-serialiser-case", f"{spec['name']}: {type(e).__name__}: {e}")
        return out
    leak = leaked_attribute_names(produced)
    if leak and leak.rsplit(".", 1)[-1] in _all_keys(ws):
        leak = None  # the generated payload itself contains that key: not a leaked attribute name
    if leak:
        out.fail(f"attribute-name-instead-of-wire-name:{spec['name'].split('(')[0]}", f"{spec['name']}: key at {leak} in produced wire data {produced!r}"[:600])
        return out
    for w, got in expect_inside:
        lost = contained(w, got)
        if lost:
            out.fail(f"serialiser-lost-member:{spec['name'].split('(')[0]}", f"{spec['name']}: {lost}")
            break
    return out


def _run_async_serialiser(mode: str, spec: Dict[str, Any], ws: List[Any]):
    from ..drive import drive
    from ..backend_worker import resolve

    if mode == "elicitation":
        from chuk_mcp.protocol.types.elicitation import ElicitationHandler, ElicitationParams

        sent: List[Any] = []
        # one handler serves the connection: two earlier requests with short-lived parameter objects (same shape, other text)
        # precede the case's own
        earlier = {k_: ("earlier: " + v_ if isinstance(v_, str) else v_) for k_, v_ in ws[0].items()} if isinstance(ws[0], dict) else ws[0]

        async def go():
            h = None

            async def send(msg):
                sent.append(msg)
                await h.handle_elicitation_response({"jsonrpc": "2.0", "id": msg["id"], "result": {"data": {"a": 1}, "cancelled": False}})

            h = ElicitationHandler(send)
            for _ in range(2):
                p0 = ElicitationParams.model_validate(earlier)
                await h.request_user_input(p0, timeout=5)
                del p0
            params = ElicitationParams.model_validate(ws[0])
            return await h.request_user_input(params, timeout=5)

        from ..vclock import run_virtual

        run_virtual(go)
        if len(sent) < 3:
            return None, []
        return sent[-1], [(ws[0], sent[-1].get("params"))]
    if mode == "completion":
        from chuk_mcp.protocol.messages.completions.send_messages import ArgumentInfo, ResourceReference, send_completion_complete

        ref = ResourceReference.model_validate(ws[0])
        arg = ArgumentInfo.model_validate(ws[1])

        async def call(r, w):
            return await send_completion_complete(r, w, ref=ref, argument=arg, timeout=1.0)

        res = drive(call, [(0.1, {"jsonrpc": "2.0", "id": "$ID", "result": {"completion": {"values": ["a"]}}})])
        req = res.written[0][1] if res.written else None
        if req is None:
            return None, []
        p = req.get("params", {})
        return req, [(ws[0], p.get("ref")), (ws[1], p.get("argument"))]
    if mode == "sampling":
        from chuk_mcp.protocol.messages.sampling.send_messages import ModelPreferences, SamplingMessage, send_sampling_create_message

        msgs = [SamplingMessage.model_validate(w) for w in ws[0]]
        prefs = ModelPreferences.model_validate(ws[1])

        async def call(r, w):
            return await send_sampling_create_message(r, w, messages=msgs, max_tokens=5, model_preferences=prefs, timeout=1.0)

        res = drive(call, [(0.1, {"jsonrpc": "2.0", "id": "$ID", "result": {"role": "assistant", "content": {"type": "text", "text": "x"}, "model": "m"}})])
        req = res.written[0][1] if res.written else None
        if req is None:
            return None, []
        p = req.get("params", {})
        exp = [(w, g) for w, g in zip(ws[0], p.get("messages", []))] + [(ws[1], p.get("modelPreferences"))]
        return req, exp
    raise ValueError(mode)


# --------------------------------------------------------------------------------------- generators

def model_cases(target: str, backend: str):
    cls = models()[target]
    return wire_strategy(cls, 3, all_aliases=True).map(lambda o: {"target": target, "data": o, "backend": backend})


@st.composite
def serialiser_cases(draw, spec: Dict[str, Any], backend: str):
    ms = [models()[t] for t in spec["models"]]
    if spec["mode"] == "apply-list":
        data: List[Any] = draw(st.lists(wire_strategy(ms[0], 2, all_aliases=True), min_size=0, max_size=3))
    elif spec["mode"] == "sampling":
        data = [draw(st.lists(wire_strategy(ms[0], 3, all_aliases=True), min_size=1, max_size=3)), draw(wire_strategy(ms[1], 3, all_aliases=True))]
    else:
        data = [draw(wire_strategy(m, 3, all_aliases=True, force_all=draw(st.booleans()))) for m in ms]
    return {"part": "b", "serialiser": spec["name"], "data": data, "backend": backend}


def job_models(col: Collector, seed: int, tier: str, shard: int, nshards: int, n: int) -> None:
    names = sorted(models())
    k = 0
    for t in names:
        for backend in ("pydantic", "fallback"):
            k += 1
            if k % nshards != shard:
                continue
            try:
                hyp_run(col, seed * 1000 + k, model_cases(t, backend), check, n)
            except TypeError as e:
                col.uncovered.append(f"{t}: {e}")
    if shard == 0:
        col.extra["model_classes"] = len(names)
        col.record({"static": True}, check({"static": True}))


def job_serialisers(col: Collector, seed: int, tier: str, shard: int, nshards: int, n: int) -> None:
    k = 0
    for spec in SERIALISERS:
        for backend in ("pydantic", "fallback"):
            if backend == "fallback" and spec["mode"] not in ("apply", "apply-list"):
                continue  # async serialisers are driven in-process (Pydantic backend)
            k += 1
            if k % nshards != shard:
                continue
            hyp_run(col, seed * 1000 + 700 + k, serialiser_cases(spec, backend), check, n)
    if shard == 0:
        col.extra["serialisers"] = [s["name"] for s in SERIALISERS]


def job_after_handshake(col: Collector, seed: int, tier: str, n: int) -> None:
    """the same serialiser cases in worker processes that earlier completed client handshakes settling on older revisions
    (what a process did on one connection must not change how it serialises objects for another)"""
    for w_ in workers():
        got = w_.request({"op": "history", "handshakes": ["2025-06-18", "2025-03-26", "2024-11-05"]})
        assert got == ["2025-06-18", "2025-03-26", "2024-11-05"], f"earlier handshakes did not settle as scripted: {got!r}"
    k = 0
    for spec in SERIALISERS:
        for backend in ("pydantic", "fallback"):
            if spec["mode"] not in ("apply", "apply-list"):
                continue
            k += 1
            hyp_run(col, seed * 1000 + 900 + k, serialiser_cases(spec, backend).map(lambda c: dict(c, after_handshakes=True)), check, n)
    col.extra["after_handshake"] = "worker processes completed handshakes at 2025-06-18, 2025-03-26 and 2024-11-05 before the cases ran"


def same_named_groups() -> List[List[str]]:
    by: Dict[str, List[str]] = {}
    for t in models():
        by.setdefault(t.split(":")[-1], []).append(t)
    return [v for v in by.values() if len(v) > 1]


@st.composite
def sequence_cases(draw, backend: str):
    groups = same_named_groups()
    pool = [t for g in groups for t in g]
    others = [t for t in sorted(models()) if t not in pool]
    k = draw(st.integers(2, 5))
    targets = [draw(st.sampled_from(pool)) for _ in range(k)]
    if draw(st.booleans()):
        targets.insert(draw(st.integers(0, len(targets))), draw(st.sampled_from(others)))
    seq = [[t, draw(wire_strategy(models()[t], 2, all_aliases=True)), draw(st.sampled_from(["validate", "validate", "validate_plain_first"]))] for t in targets]
    return {"seq": seq, "backend": backend}


def _aliased(cls: type, depth: int = 3) -> bool:
    import inspect
    import typing

    from chuk_mcp.protocol.mcp_pydantic_base import McpPydanticBase

    def walk(ann: Any, d: int) -> bool:
        if inspect.isclass(ann) and issubclass(ann, McpPydanticBase):
            return d > 0 and _aliased(ann, d - 1)
        return any(walk(a, d) for a in typing.get_args(ann))

    return any(f["alias"] or walk(f["annotation"], depth) for f in fields_of(cls))


def job_dump_order(col: Collector, seed: int, tier: str, shard: int, nshards: int, n: int) -> None:
    """in a FRESH process per backend, every model class that has an aliased member (its own or a nested model's) is
    first looked at under its Python names (a plain model_dump()) and only then serialised for the wire"""
    names = [t for t in sorted(models()) if _aliased(models()[t])]
    chunks = [names[i : i + 12] for i in range(0, len(names), 12)]
    for ci, chunk in enumerate(chunks):
        if ci % nshards != shard:
            continue
        for backend in ("fallback", "pydantic"):
            for order in (chunk, list(reversed(chunk))):
                strat = st.tuples(*[wire_strategy(models()[t], 2, all_aliases=True, extras=False) for t in order]).map(
                    lambda ws, order=order, backend=backend: {"seq": [[t, w, "validate_plain_first"] for t, w in zip(order, ws)], "backend": backend})
                hyp_run(col, seed * 1000 + 700 + ci, strat, check, n)
    if shard == 0:
        col.extra["classes_with_aliased_members"] = len(names)
        col.exhaustive_parts.append(f"all {len(names)} model classes with an aliased member: plain dump before the first wire dump, fresh process, both backends, two class orders")


def job_sequences(col: Collector, seed: int, tier: str, shard: int, n: int) -> None:
    backend = "fallback" if shard % 4 else "pydantic"
    if not same_named_groups():
        col.uncovered.append("no same-named model classes: cross-class sequence job has nothing to do")
        return
    hyp_run(col, seed * 1000 + 900 + shard, sequence_cases(backend), check, n)
    if shard == 0:
        col.extra["same_named_model_groups"] = [[t for t in g] for g in same_named_groups()]


def job_open_enums(col: Collector, seed: int, tier: str) -> None:
    """every field typed "one of these words, or any string": each known word and each other spelling of it, on an
    otherwise minimal object, both backends"""
    import typing

    from ..modelgen import _SPELLINGS, deterministic_value

    n = 0
    for t, cls in sorted(models().items()):
        for f in fields_of(cls):
            ann = f["annotation"]
            if typing.get_origin(ann) is not typing.Union:
                continue
            arms = [a for a in typing.get_args(ann) if a is not type(None)]
            lits = [v for a in arms if typing.get_origin(a) is typing.Literal for v in typing.get_args(a) if isinstance(v, str)]
            if not lits or str not in arms:
                continue
            try:
                base = {ff["wire"]: deterministic_value(ff["annotation"], cls, ff["name"], 2) for ff in fields_of(cls) if ff["required"]}
            except TypeError:
                continue
            for word in sorted(set(lits) | {fn(v) for v in lits for fn in _SPELLINGS} | {"", "x"}):
                for backend in ("pydantic", "fallback"):
                    case = {"target": t, "data": dict(base, **{f["wire"]: word}), "backend": backend}
                    o = check(case)
                    o.nontrivial = True
                    col.record(case, o)
                    n += 1
    col.exhaustive_parts.append(f"open enumerations: every known word and 4 other spellings of it for every such field ({n} objects)")


def job_shared(col: Collector, seed: int, tier: str, shard: int, nshards: int) -> None:
    """objects built in Python reuse fragments: for every model class an instance with every optional member populated by
    fixed values (so that equal containers occur several times), validated from an input in which equal containers are
    ONE shared object, both backends; sharing is not a cycle and nothing may go missing"""
    from ..modelgen import deterministic_value

    k = 0
    for t, cls in sorted(models().items()):
        k += 1
        if k % nshards != shard:
            continue
        try:
            w = {f["wire"]: deterministic_value(f["annotation"], cls, f["name"], 2) for f in fields_of(cls)}
        except TypeError:
            continue
        if cls.__name__ == "JSONRPCMessage":
            continue
        w["x-vendor"] = {"k": [1, None]}
        w["x-vendor-2"] = {"k": [1, None]}
        for backend in ("pydantic", "fallback"):
            case = {"target": t, "data": w, "backend": backend, "how": "validate_shared"}
            col.record(case, check(case))
    if shard == 0:
        col.exhaustive_parts.append("every model class fully populated with fixed values, equal containers shared by reference, both backends")


def job_builders(col: Collector, seed: int, tier: str) -> None:
    names = sorted(builders())
    for name in names:
        for backend in ("pydantic", "fallback"):
            case = {"builder": name, "backend": backend}
            col.record(case, check(case))
    col.extra["builders"] = [n.split(":")[-1] for n in names]
    col.exhaustive_parts.append(f"all {len(names)} public create_* builders of chuk_mcp.protocol with every parameter populated, both backends")


JOBS = {"shared": job_shared, "builders": job_builders, "dump_order": job_dump_order, "models": job_models, "serialisers": job_serialisers, "sequences": job_sequences, "open_enums": job_open_enums, "after_handshake": job_after_handshake}


def jobs(tier: str):
    if tier == "quick":
        return [("models", {"shard": s, "nshards": 8, "n": 60}) for s in range(8)] + [("serialisers", {"shard": s, "nshards": 4, "n": 120}) for s in range(4)] + [("sequences", {"shard": s, "n": 10}) for s in range(4)] + [("open_enums", {})] + [("dump_order", {"shard": s, "nshards": 2, "n": 2}) for s in range(2)] + [("shared", {"shard": s, "nshards": 2}) for s in range(2)] + [("builders", {})] + [("after_handshake", {"n": 40})]
    return [("models", {"shard": s, "nshards": 8, "n": 1500}) for s in range(8)] + [("serialisers", {"shard": s, "nshards": 4, "n": 2500}) for s in range(4)] + [("sequences", {"shard": s, "n": 300}) for s in range(4)] + [("open_enums", {})] + [("dump_order", {"shard": s, "nshards": 4, "n": 25}) for s in range(4)] + [("shared", {"shard": s, "nshards": 2}) for s in range(2)] + [("builders", {})] + [("after_handshake", {"n": 600})]


def shrink(signature: str, seed: int):
    return None
