"""C13 - batches are accepted exactly for protocol versions older than 2025-06-18."""
from __future__ import annotations

import asyncio
import datetime
import json
from typing import Any, Dict, List, Optional

import anyio
from hypothesis import strategies as st

from ..fakeproc import FakeProcess, patched_open_process, stdio_params
from ..jsonrpc_ref import classify, first_diff, strict_eq
from ..runner import Collector, Outcome, hyp_run, hyp_shrink
from ..vclock import run_virtual

ID = "C13"
LEVEL = "exploration"
RULE = (
    "decision function: every string dddd-dd-dd with year 1990..2199, month 00..99, day 00..99 (2.1M, exhaustive; thorough: the complete 10^8 domain years 0000..9999) "
    "plus None/'' : supports_batching(v) == (v < '2025-06-18') == (ProtocolVersion.compare(v,'2025-06-18') < 0); "
    "transport: operation sequences over an entered StdioClient with a scripted child: set_protocol_version(v in none / supported / cutoff neighbours), tracked initialize handshake (preferred x answered version, all 81 pairs enumerated), a version switch k scheduler turns after a batch line arrived, "
    "single message line, batch line of 0..4 members mixing valid and invalid items, stall window (the child stops reading its stdin while k in 0..130 outgoing messages pile up and 1..3 lines arrive, then reads again); after every line the delivered messages and the bytes written back are compared "
    "with the reference for the current mode; non-trivial (decision) = version within 45 days of the cutoff or differing from it in exactly one field; "
    "(transport) = a batch after a mode change or a batch mixing valid and invalid members; distinct = distinct string / distinct sequence"
    "; added in rounds 6-7 of the seeded changes: batches whose answered ids have per-request streams registered"
)
ASSUMPTIONS = [
    "fixed-width dddd-dd-dd strings order lexicographically exactly as dates do",
    "invalid batch members are items both the independent grammar and the library's parser reject (scalars, id-only objects, result+error); parser leniency for envelope-invalid objects is C05's subject",
    "scripted child process (anyio.open_process patched), virtual clock",
]
EXHAUSTIVE = {"quick": True, "thorough": True}
META = {
    "text": "The decision function is enumerated completely over the stated date grid (and over the whole 10^8 fixed-width domain in thorough) against the lexicographic reference and the library's own ordering; the transport behaviour is explored with generated operation sequences against a reference of the two modes.",
    "technique": "exhaustive enumeration of the decision function + model-based operation sequences over StdioClient with a scripted process",
}

CUTOFF = "2025-06-18"
CUT_DATE = datetime.date(2025, 6, 18)


def _nontrivial_version(y: int, m: int, d: int) -> bool:
    same = (y == 2025) + (m == 6) + (d == 18)
    if same == 2:
        return True
    try:
        return abs((datetime.date(y, m, d) - CUT_DATE).days) <= 45
    except ValueError:
        return False


def job_decision(col: Collector, seed: int, tier: str, shard: int, nshards: int, y0: int, y1: int) -> None:
    from chuk_mcp.protocol.features.batching import supports_batching
    from chuk_mcp.protocol.types.versioning import ProtocolVersion

    n = 0
    nt = 0
    samples: List[str] = []
    for y in range(y0, y1 + 1):
        if y % nshards != shard:
            continue
        near = abs(y - 2025) <= 1 or (y1 - y0) < 1000  # quick grid: the library ordering is consulted for every string
        for m in range(100):
            for d in range(100):
                v = f"{y:04d}-{m:02d}-{d:02d}"
                want = v < CUTOFF
                got = supports_batching(v)
                n += 1
                bad = got is not want
                if not bad and (near or (m == 6 and d == 18) or d % 10 == 0):
                    # the library's own ordering (cheaper subset for far-away years: every 10th day, plus all near years)
                    c = ProtocolVersion.compare(v, CUTOFF)
                    if (c < 0) is not want:
                        case = {"decision": v}
                        o = Outcome(nontrivial=True)
                        o.fail("decision-disagrees-with-library-version-ordering", f"{v}: supports_batching={got} compare={c}")
                        col.record(case, o)
                        n -= 1
                if bad:
                    case = {"decision": v}
                    o = Outcome(nontrivial=True)
                    o.fail("batching-decision-differs-from-date-order", f"supports_batching({v!r}) = {got!r}, but ({v!r} < {CUTOFF!r}) = {want}")
                    col.record(case, o)
                    n -= 1
                if (near or m == 6 or d == 18) and _nontrivial_version(y, m, d):
                    nt += 1
                    if len(samples) < 3:
                        samples.append(v)
    col.evaluations += n
    col.nontrivial_extra += nt
    for s in samples:
        if len(col.samples) < 3:
            col.samples.append({"decision": s})
    col.count("decision-strings", n)
    if shard == 0:
        col.exhaustive_parts.append(f"every dddd-dd-dd string with year {y0:04d}..{y1:04d}, month 00..99, day 00..99")
        for v in (None, ""):
            o = Outcome(nontrivial=True, key=f"decision:{v!r}")
            if supports_batching(v) is not True:
                o.fail("no-version-does-not-accept-batches", repr(v))
            col.record({"decision": v}, o)


def check_decision(case: Dict[str, Any]) -> Outcome:
    from chuk_mcp.protocol.features.batching import supports_batching
    from chuk_mcp.protocol.types.versioning import ProtocolVersion

    v = case["decision"]
    o = Outcome(nontrivial=True)
    if not v:
        if supports_batching(v) is not True:
            o.fail("no-version-does-not-accept-batches", repr(v))
        return o
    want = v < CUTOFF
    got = supports_batching(v)
    if got is not want:
        o.fail("batching-decision-differs-from-date-order", f"supports_batching({v!r}) = {got!r}, but ({v!r} < {CUTOFF!r}) = {want}")
    elif (ProtocolVersion.compare(v, CUTOFF) < 0) is not want:
        o.fail("decision-disagrees-with-library-version-ordering", v)
    return o


# --------------------------------------------------------------------------------------- transport

VALID_MEMBERS = [
    {"jsonrpc": "2.0", "id": 11, "result": {"a": 1}},
    {"jsonrpc": "2.0", "id": "r2", "error": {"code": -32000, "message": "e"}},
    {"jsonrpc": "2.0", "method": "notifications/message", "params": {"level": "info", "data": "x"}},
    {"jsonrpc": "2.0", "id": 12, "method": "roots/list"},
    {"jsonrpc": "2.0", "id": 13, "result": {"é": " "}},
]
INVALID_MEMBERS = [5, "str", None, True, {"jsonrpc": "2.0", "id": 1}, {"jsonrpc": "2.0", "id": 1, "result": {}, "error": {"code": 1, "message": "x"}}, {"jsonrpc": "2.0", "method": 5}]
VERSIONS = [None, "2025-06-18", "2025-03-26", "2024-11-05", "2025-06-17", "2025-06-19", "2025-05-31", "2025-07-01", "2024-12-31", "2026-01-01"]


def _member(spec: List[Any]) -> Any:
    kind, i = spec
    return VALID_MEMBERS[i % len(VALID_MEMBERS)] if kind == "v" else INVALID_MEMBERS[i % len(INVALID_MEMBERS)]


def _kinds(members: List[Any]) -> List[str]:
    return [classify(m)[0] or "invalid" for m in members]


def check(case: Dict[str, Any]) -> Outcome:
    if "decision" in case:
        return check_decision(case)
    from chuk_mcp.transports.stdio.stdio_client import StdioClient

    out = Outcome()
    ops: List[List[Any]] = case["ops"]
    flags = {"batch_after_mode_change": False, "mixed_batch": False, "stalled_window": False, "rejection_behind_full_queue": False, "version_by_handshake": False, "handshake_across_cutoff": False, "version_switch_racing_a_batch": False, "per_request_stream_registered": False}

    async def main() -> None:
        procs: List[FakeProcess] = []
        with patched_open_process(procs):
            client = StdioClient(stdio_params())
            async with client:
                proc = procs[0]
                read, _write = client.get_streams()
                version: Optional[str] = None
                mode_changed_since_batch = False
                last_mode = True
                for step, op in enumerate(ops):
                    if op[0] == "version":
                        v = VERSIONS[op[1] % len(VERSIONS)]
                        if v is not None:
                            client.set_protocol_version(v)
                            version = v
                            mode = v < CUTOFF
                            if mode != last_mode:
                                mode_changed_since_batch = True
                            last_mode = mode
                        continue
                    if op[0] == "handshake":
                        # the version arrives the way it does in real use: a tracked initialize handshake in which the
                        # client proposes one version and the (scripted) server answers with another one it supports
                        from chuk_mcp.protocol.messages.initialize.send_messages import send_initialize_with_client_tracking

                        sup = [v_ for v_ in VERSIONS if v_ is not None]
                        preferred = sup[op[1] % len(sup)]
                        answered = sup[op[2] % len(sup)]
                        hbuf = {"b": b""}

                        def responder(data: bytes, answered=answered) -> None:
                            hbuf["b"] += data
                            while b"\n" in hbuf["b"]:
                                line, hbuf["b"] = hbuf["b"].split(b"\n", 1)
                                try:
                                    m_ = json.loads(line)
                                except Exception:
                                    continue
                                if isinstance(m_, dict) and m_.get("method") == "initialize":
                                    proc.stdout.feed((json.dumps({"jsonrpc": "2.0", "id": m_["id"], "result": {"protocolVersion": answered, "capabilities": {}, "serverInfo": {"name": "s", "version": "1"}}}) + "\n").encode())

                        proc.on_stdin = responder
                        try:
                            await send_initialize_with_client_tracking(read, _write, client=client, timeout=1.0, supported_versions=list(sup), preferred_version=preferred)
                        except Exception as e_:  # noqa
                            out.fail("tracked-handshake-failed", f"step {step}: preferred {preferred!r} answered {answered!r}: {type(e_).__name__}: {e_}")
                            return
                        finally:
                            proc.on_stdin = None
                        await asyncio.sleep(0.01)
                        flags["version_by_handshake"] = True
                        if (preferred < CUTOFF) != (answered < CUTOFF):
                            flags["handshake_across_cutoff"] = True
                        version = answered
                        mode = answered < CUTOFF
                        if mode != last_mode:
                            mode_changed_since_batch = True
                        last_mode = mode
                        continue
                    if op[0] == "batch_then_version":
                        # a batch line arrives and the application switches the version k scheduler turns later (e.g. a
                        # re-negotiation racing with the server's output): the batch must be handled entirely under one of
                        # the two modes - all valid members delivered and nothing written back, or nothing delivered and
                        # exactly one -32600 - never half of each
                        members = [_member(x) for x in op[1]]
                        v_new = [v_ for v_ in VERSIONS if v_ is not None][op[2] % (len(VERSIONS) - 1)]
                        n_written = len(proc.stdin.writes)
                        proc.stdout.feed((json.dumps(members) + "\n").encode())
                        for _y in range(op[3]):
                            await asyncio.sleep(0)
                        client.set_protocol_version(v_new)
                        old_accepting = version is None or version < CUTOFF
                        version = v_new
                        mode = v_new < CUTOFF
                        if mode != last_mode:
                            mode_changed_since_batch = False
                        last_mode = mode
                        await asyncio.sleep(0.01)
                        got = []
                        while True:
                            try:
                                got.append(read.receive_nowait())
                            except (anyio.WouldBlock, anyio.EndOfStream):
                                break
                        got_wire = [g.model_dump(exclude_none=True) if hasattr(g, "model_dump") else g for g in got]
                        written = proc.stdin.writes[n_written:]
                        want = [m for m in members if classify(m)[0] is not None]
                        as_accepted = (len(got_wire) == len(want) and not any(first_diff(a, b) for a, b in zip(got_wire, want)) and not written)
                        as_rejected = (not got_wire and len(written) == 1)
                        flags["version_switch_racing_a_batch"] = True
                        if not (as_accepted or as_rejected) or (old_accepting == mode and not (as_accepted if mode else as_rejected)):
                            out.fail("batch-neither-accepted-nor-rejected-when-the-version-changes-meanwhile", f"step {step}: batch of {len(members)} fed, version -> {v_new!r} {op[3]} turns later: delivered {len(got_wire)}/{len(want)}, {len(written)} line(s) written back")
                            return
                        continue
                    accepting = version is None or version < CUTOFF
                    if op[0] == "stalled":
                        # the child stops reading its stdin while the application keeps sending (k messages pile up
                        # behind the blocked write) and the server keeps talking; then the child reads again
                        k_out, sub = op[1], op[2]
                        flags["stalled_window"] = True
                        n_written = len(proc.stdin.writes)
                        proc.stdin.gate = asyncio.Event()
                        backlog = [{"jsonrpc": "2.0", "method": "notifications/x", "params": {"i": i_}} for i_ in range(k_out)]

                        async def pile_up() -> None:
                            for m_ in backlog:
                                await _write.send(m_)

                        sender = asyncio.ensure_future(pile_up())
                        await asyncio.sleep(0.01)
                        want_deliv: List[Any] = []
                        want_rej = 0
                        for sop in sub:
                            if sop[0] == "single":
                                ms_ = [_member(["v", sop[1]])]
                                line_: Any = ms_[0]
                                isb = False
                            else:
                                ms_ = [_member(x) for x in sop[1]]
                                line_ = ms_
                                isb = True
                            if isb and not accepting:
                                want_rej += 1
                                if k_out > 100:
                                    flags["rejection_behind_full_queue"] = True
                            else:
                                want_deliv += [m for m in ms_ if classify(m)[0] is not None]
                            proc.stdout.feed((json.dumps(line_) + "\n").encode())
                            await asyncio.sleep(0.01)
                        proc.stdin.gate.set()
                        proc.stdin.gate = None
                        await asyncio.sleep(0.05)
                        await sender
                        await asyncio.sleep(0.05)
                        got = []
                        while True:
                            try:
                                got.append(read.receive_nowait())
                            except (anyio.WouldBlock, anyio.EndOfStream):
                                break
                        got_wire = [g.model_dump(exclude_none=True) if hasattr(g, "model_dump") else g for g in got]
                        lines_ = b"".join(d for _, d in proc.stdin.writes[n_written:]).split(b"\n")
                        if lines_[-1] != b"":
                            out.fail("stdin-line-unterminated-after-stall", repr(lines_[-1][:80]))
                            return
                        rej, others = 0, []
                        for ln in lines_[:-1]:
                            try:
                                w_ = json.loads(ln.decode("utf-8"))
                            except Exception:
                                out.fail("stdin-line-not-json-after-stall", repr(ln[:120]))
                                return
                            if isinstance(w_, dict) and w_.get("id") is None and isinstance(w_.get("error"), dict) and w_["error"].get("code") == -32600 and "method" not in w_:
                                rej += 1
                            else:
                                others.append(w_)
                        if rej != want_rej:
                            out.fail("batch-rejection-lost-or-duplicated-under-backpressure", f"step {step} version {version!r}: {rej} rejection lines for {want_rej} rejected batches; {k_out} messages were queued behind the blocked write")
                            return
                        if len(others) != len(backlog) or any(first_diff(a, b) for a, b in zip(others, backlog)):
                            out.fail("queued-messages-lost-or-reordered-by-stall", f"step {step}: wrote {len(others)} of {len(backlog)} queued messages")
                            return
                        if len(got_wire) != len(want_deliv) or any(first_diff(a, b) for a, b in zip(got_wire, want_deliv)):
                            out.fail("deliveries-differ-during-stall", f"step {step} version {version!r}: got {got_wire!r} want {want_deliv!r}")
                            return
                        continue
                    if client.is_batching_enabled() is not accepting:
                        out.fail("client-batching-mode-differs-from-version", f"step {step}: version {version!r} enabled={client.is_batching_enabled()}")
                        return
                    n_written = len(proc.stdin.writes)
                    if op[0] == "single":
                        payload: Any = _member(["v", op[1]])
                        members = [payload]
                        is_batch = False
                    else:
                        members = [_member(s) for s in op[1]]
                        payload = members
                        is_batch = True
                        if len(op) > 2 and op[2]:
                            # the application has per-request streams registered for some of the ids answered in this
                            # batch: those members take another route inside the client, the read stream's order stays
                            for ix_, m_ in enumerate(members):
                                if (op[2] >> ix_) & 1 and isinstance(m_, dict) and "method" not in m_ and m_.get("id") is not None and ("result" in m_ or "error" in m_):
                                    client.new_request_stream(str(m_["id"]))
                                    flags["per_request_stream_registered"] = True
                        kinds = _kinds(members)
                        if mode_changed_since_batch:
                            flags["batch_after_mode_change"] = True
                            mode_changed_since_batch = False
                        if "invalid" in kinds and any(k != "invalid" for k in kinds):
                            flags["mixed_batch"] = True
                    term = "\r\n" if (step % 3 == 0) else "\n"
                    proc.stdout.feed((json.dumps(payload) + term).encode())
                    await asyncio.sleep(0.01)  # quiescence (virtual)
                    got: List[Any] = []
                    while True:
                        try:
                            got.append(read.receive_nowait())
                        except (anyio.WouldBlock, anyio.EndOfStream):
                            break
                    got_wire = [g.model_dump(exclude_none=True) if hasattr(g, "model_dump") else g for g in got]
                    written = proc.stdin.writes[n_written:]
                    if is_batch and not accepting:
                        if got_wire:
                            out.fail("batch-member-delivered-in-rejecting-mode", f"step {step} version {version!r}: delivered {got_wire!r}")
                            return
                        if len(written) != 1:
                            out.fail("batch-rejection-not-exactly-one-line", f"step {step} version {version!r}: {len(written)} writes {written!r}")
                            return
                        data = written[0][1]
                        if not data.endswith(b"\n") or data.count(b"\n") != 1:
                            out.fail("batch-rejection-not-one-line", repr(data))
                            return
                        try:
                            w = json.loads(data.decode("utf-8"))
                        except Exception as e:  # noqa
                            out.fail("batch-rejection-not-json", repr(data))
                            return
                        k, why = classify(w)
                        if k != "error" or w["error"]["code"] != -32600:
                            out.fail("batch-rejection-not-a-valid-32600-error", f"{why} {w!r}")
                            return
                    else:
                        if written:
                            out.fail("unexpected-write-back", f"step {step} version {version!r} batch={is_batch}: {written!r}")
                            return
                        want = [m for m in members if classify(m)[0] is not None]
                        if len(got_wire) != len(want) or any(first_diff(a, b) for a, b in zip(got_wire, want)):
                            if len(got_wire) < len(want):
                                sig = "valid-batch-member-not-delivered" if is_batch else "single-message-not-delivered"
                            elif len(got_wire) > len(want):
                                sig = "invalid-batch-member-delivered"
                            else:
                                sig = "delivered-members-differ-or-out-of-order"
                            out.fail(sig, f"step {step} version {version!r}: got {got_wire!r} want {want!r}")
                            return

    try:
        run_virtual(main)
    except Exception as e:  # noqa
        out.fail("harness-or-client-raised", f"{type(e).__name__}: {e}")
    out.nontrivial = any(flags.values())
    out.classes = tuple(k for k, v in flags.items() if v) + (f"ops:{min(len(ops) // 5 * 5, 30)}",)
    return out


_member_spec = st.one_of(st.tuples(st.just("v"), st.integers(0, 4)).map(list), st.tuples(st.just("i"), st.integers(0, 6)).map(list))
_op = st.one_of(
    st.tuples(st.just("version"), st.integers(0, len(VERSIONS) - 1)).map(list),
    st.tuples(st.just("single"), st.integers(0, 4)).map(list),
    st.tuples(st.just("batch"), st.lists(_member_spec, max_size=4)).map(list),
    st.tuples(st.just("batch"), st.lists(_member_spec, max_size=4)).map(list),
    st.tuples(st.just("batch"), st.lists(_member_spec, min_size=2, max_size=5), st.integers(1, 31)).map(list),
)


_sub = st.one_of(st.tuples(st.just("single"), st.integers(0, 4)).map(list), st.tuples(st.just("batch"), st.lists(_member_spec, max_size=3)).map(list))
_stalled = st.tuples(st.just("stalled"), st.sampled_from([0, 1, 5, 99, 100, 101, 102, 130]), st.lists(_sub, min_size=1, max_size=3)).map(list)


_btv = st.tuples(st.just("batch_then_version"), st.lists(_member_spec, max_size=3), st.integers(0, 8), st.sampled_from([0, 0, 1, 2, 3, 5])).map(list)
_handshake = st.tuples(st.just("handshake"), st.integers(0, 8), st.integers(0, 8)).map(list)


def cases():
    return st.lists(st.one_of(_op, _op, _op, _op, _stalled, _handshake, _btv), min_size=1, max_size=30).map(lambda ops: {"ops": ops})


def job_hyp(col: Collector, seed: int, tier: str, shard: int, n: int) -> None:
    hyp_run(col, seed * 1000 + shard, cases(), check, n)


def job_matrix(col: Collector, seed: int, tier: str) -> None:
    """every version x every batch shape of <=2 members over a reduced member alphabet."""
    members = [["v", 0], ["v", 2], ["i", 0], ["i", 4]]
    shapes: List[List[Any]] = [[]] + [[a] for a in members] + [[a, b] for a in members for b in members]
    for vi in range(len(VERSIONS)):
        for sh in shapes:
            case = {"ops": [["version", vi], ["batch", sh], ["single", 1], ["version", (vi + 1) % len(VERSIONS)], ["batch", sh]]}
            col.record(case, check(case))
    # a batch racing with a version switch: every version before x every version after x 6 offsets
    nv2 = len([v for v in VERSIONS if v is not None])
    for vi in range(len(VERSIONS)):
        for vj in range(nv2):
            for k in (0, 1, 2, 3, 5, 8):
                case = {"ops": [["version", vi], ["batch_then_version", [["v", 0], ["i", 0], ["v", 2]], vj, k], ["single", 1], ["batch", [["v", 1]]]]}
                col.record(case, check(case))
    # the version set through a tracked handshake: every (preferred, answered) pair of the 9 versions, then a batch
    nv = len([v for v in VERSIONS if v is not None])
    for pi in range(nv):
        for ai in range(nv):
            case = {"ops": [["handshake", pi, ai], ["batch", [["v", 0], ["i", 0], ["v", 2]]], ["single", 1], ["batch", []]]}
            col.record(case, check(case))
    # the same decision while the child is not reading its stdin and k messages are queued behind the blocked write
    for vi in range(len(VERSIONS)):
        for k in (0, 1, 99, 100, 101, 130):
            for sub in ([["batch", [["v", 0]]]], [["single", 1], ["batch", [["v", 0], ["i", 0]]], ["batch", []]]):
                case = {"ops": [["version", vi], ["stalled", k, sub], ["batch", [["v", 2]]]]}
                col.record(case, check(case))
    # batches in which answered ids have per-request streams registered: every order of 4 members x every registration subset
    import itertools as _it

    four = [["v", 0], ["v", 2], ["v", 4], ["v", 1]]
    for vi in (0, 2, 3, 1):
        for perm in _it.permutations(four):
            for reg in (1, 2, 4, 8, 3, 5, 9, 15):
                case = {"ops": [["version", vi], ["batch", [list(x) for x in perm], reg], ["single", 1]]}
                col.record(case, check(case))
    col.exhaustive_parts.append("4 versions x all orders of a 4-member batch (2 results, 1 error, 1 notification) x 8 subsets of answered ids with a per-request stream registered")
    col.exhaustive_parts.append(f"{len(VERSIONS)} versions x {len(shapes)} batch shapes (<=2 members over 4 member kinds), each followed by a version change and the same batch; {len(VERSIONS)} versions x 6 backlog sizes (0..130 queued messages behind a blocked stdin) x 2 inbound line sequences")


JOBS = {"decision": job_decision, "hyp": job_hyp, "matrix": job_matrix}


def jobs(tier: str):
    if tier == "quick":
        return [("decision", {"shard": s, "nshards": 12, "y0": 1990, "y1": 2199}) for s in range(12)] + [("hyp", {"shard": s, "n": 100}) for s in range(3)] + [("matrix", {})]
    return [("decision", {"shard": s, "nshards": 16, "y0": 0, "y1": 9999}) for s in range(16)] + [("hyp", {"shard": s, "n": 1500}) for s in range(4)] + [("matrix", {})]


def shrink(signature: str, seed: int):
    return hyp_shrink(seed * 1000, cases(), check, signature, 1000)
