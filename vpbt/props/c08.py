"""C08 - server dispatch: one response per request, none per notification, never a crash."""
from __future__ import annotations

import json
from typing import Any, Dict, List, Optional

from hypothesis import strategies as st

from ..jsongen import json_objects, json_text, json_values
from ..jsonrpc_ref import classify, first_diff, strict_eq
from ..runner import Collector, Outcome, hyp_run, hyp_shrink
from ..vclock import run_virtual

ID = "C08"
LEVEL = "exploration"
RULE = (
    "case = (server program: MCPServer with 0..3 tools / 0..2 resources whose handlers return str/dict/list/int/None/non-JSON object, raise, or reject arguments, "
    "plus custom register_method handlers that answer or raise; message: request (id 0 / negative / big / '' / digit string / text) or notification, method over "
    "core methods, registered tool/resource methods, every notifications/* name of MessageMethod, random strings; params missing / {} / wrong types / arguments:null / "
    "unknown or non-string names), built three ways (specific class, unified class, parse_message); oracle: never raises, exactly one grammar-valid response with the "
    "request's id and the documented error code, none for notifications, response line re-parses to itself; non-trivial = a notification other than notifications/initialized, "
    "or a raising / non-string-returning handler, or id in {0, '', negative}; distinct = distinct case"
)
ASSUMPTIONS = [
    "well-formed incoming request = a message the library's own constructors/parser accept (string method, id string or integer)",
    "for a tool/resource name that is a list or object either -32602 or -32603 is accepted; empty-string method: -32600 or -32601",
    "arguments:null or arguments of a wrong type for the handler count as 'handler raises' (-32603) or invalid params (-32602)",
    "a custom register_method handler that returns no response for a request violates the handler contract (pinned by the suite) and is excluded for requests; it is still exercised with notifications",
]
EXHAUSTIVE = {"quick": False, "thorough": False}
META = {
    "text": "Generated (server program, message) pairs dispatched through MCPServer/ProtocolHandler.handle_message; the oracle is the JSON-RPC grammar plus the documented code per situation; all standard notification names are enumerated from MessageMethod.",
    "technique": "Hypothesis over (server program, message) + enumeration of notification names; oracle = independent JSON-RPC grammar and documented error codes",
}

HANDLER_KINDS = ["str", "dict", "list", "int", "none", "object", "raise_value", "raise_runtime", "raise_key", "needs_arg", "nested_bad_json", "slow_str", "raise_slow",
                 "raise_code_int", "raise_code_str", "raise_code_none", "raise_code_callable", "raise_code_jsonrpc"]


def foreign_exception(which: str) -> Exception:
    """exceptions of other libraries that happen to carry a `code` (HTTP clients, database drivers, RPC stubs): to the
    dispatcher they are handler failures like any other"""
    class Foreign(Exception):
        pass

    e = Foreign("upstream said no")
    if which == "int":
        e.code = 404  # type: ignore[attr-defined]
    elif which == "str":
        e.code = "e3q8"  # type: ignore[attr-defined]
    elif which == "none":
        e.code = None  # type: ignore[attr-defined]
    elif which == "callable":
        e.code = lambda: 5  # type: ignore[attr-defined]
    else:
        e.code = -32602  # type: ignore[attr-defined]
        e.data = {"x": {1, 2}}  # type: ignore[attr-defined]
    return e


def make_tool(kind: str):
    async def h(**kw):
        if kind == "str":
            return "ok é\n"
        if kind == "dict":
            return {"a": 1, "n": None}
        if kind == "list":
            return ["x", {"y": 2}, 3]
        if kind == "int":
            return 7
        if kind == "none":
            return None
        if kind == "object":
            return object()
        if kind == "raise_value":
            raise ValueError("bad value")
        if kind == "raise_runtime":
            raise RuntimeError("boom")
        if kind == "raise_key":
            raise KeyError("k")
        if kind.startswith("raise_code_"):
            raise foreign_exception(kind[len("raise_code_"):])
        if kind == "nested_bad_json":
            return {"s": {1, 2}}
        if kind == "slow_str":
            import asyncio as _a

            await _a.sleep(0.02)
            return "slow ok"
        if kind == "raise_slow":
            import asyncio as _a

            await _a.sleep(0.02)
            raise RuntimeError("slow boom")
        raise AssertionError(kind)

    async def needs(x: int):
        return str(x + 1)

    return needs if kind == "needs_arg" else h


def make_resource(kind: str):
    async def h():
        if kind.startswith("raise"):
            raise RuntimeError("resource boom")
        if kind == "none":
            return None
        if kind == "object":
            return object()
        return "content é"

    return h


def notification_names() -> List[str]:
    from chuk_mcp.protocol.messages.message_method import MessageMethod

    out = []
    for m in MessageMethod:
        v = m.value if hasattr(m, "value") else str(m)
        if isinstance(v, str) and v.startswith("notifications/"):
            out.append(v)
    return sorted(set(out))


def build_server(prog: Dict[str, Any]):
    from chuk_mcp.server.server import MCPServer

    srv = MCPServer("t", "1.0")
    for i, k in enumerate(prog.get("tools", [])):
        srv.register_tool(f"tool{i}", make_tool(k), {"type": "object", "properties": {}}, f"tool {i}")
    for i, k in enumerate(prog.get("resources", [])):
        srv.register_resource(f"file:///r{i}", make_resource(k), name=f"r{i}")
    for name, k in prog.get("custom", []):
        ph = srv.protocol_handler

        def mk(k=k):
            async def handler(message, session_id):
                if k == "raise":
                    raise RuntimeError("custom boom")
                if k.startswith("raise_code_"):
                    raise foreign_exception(k[len("raise_code_"):])
                if k == "raise_slow":
                    import asyncio as _a

                    await _a.sleep(0.02)
                    raise RuntimeError("custom slow boom")
                if k == "answer":
                    mid = getattr(message, "id", None)
                    if mid is None:
                        return None, None
                    return ph.create_response(mid, {"custom": True}), None
                if k == "answer_always":
                    # a handler written for requests that is also hit by a notification
                    return ph.create_response(getattr(message, "id", None), {"custom": True}), None
                return None, None

            return handler

        srv.protocol_handler.register_method(name, mk())
    return srv


def build_message(case: Dict[str, Any]):
    from chuk_mcp.protocol.messages.json_rpc_message import JSONRPCMessage, JSONRPCNotification, JSONRPCRequest, parse_message

    wire: Dict[str, Any] = {"jsonrpc": "2.0", "method": case["method"]}
    if "id" in case:
        wire["id"] = case["id"]
    if case.get("params", "$absent") != "$absent":
        wire["params"] = case["params"]
    how = case.get("how", "parse")
    if how == "parse":
        return wire, parse_message(wire)
    if how == "unified":
        return wire, JSONRPCMessage(**wire)
    if "id" in wire:
        return wire, JSONRPCRequest(**wire)
    return wire, JSONRPCNotification(**wire)


def check_life(case: Dict[str, Any]) -> Outcome:
    """a long-lived connection: initialize, then hundreds of messages bearing the session id with gaps of hours in
    between (controlled clock).  Every request gets exactly one response with its id and dispatch never raises -
    however old the session has become in the meantime."""
    import chuk_mcp.server.session.memory as memmod

    from ..vclock import run_virtual

    out = Outcome(nontrivial=True, classes=("long-life",))

    class Clock:
        now = 1_000_000.0

        def time(self):
            return self.now

    clock = Clock()
    real = memmod.time
    memmod.time = clock  # type: ignore
    try:
        srv = build_server({"tools": ["str", "raise_runtime"], "resources": ["str"], "custom": []})
        ph = srv.protocol_handler
        from chuk_mcp.protocol.messages.json_rpc_message import parse_message

        async def go():
            resp, sid = await ph.handle_message(parse_message({"jsonrpc": "2.0", "id": "i", "method": "initialize", "params": {"protocolVersion": "2025-06-18", "capabilities": {}, "clientInfo": {"name": "c", "version": "1"}}}))
            sids = [sid]
            for k in range(case["n"]):
                if k % case["gap_every"] == 0:
                    clock.now += case["gaps"][(k // case["gap_every"]) % len(case["gaps"])]
                if k % 50 == 49:
                    r2, s2 = await ph.handle_message(parse_message({"jsonrpc": "2.0", "id": f"i{k}", "method": "initialize", "params": {"protocolVersion": "2025-03-26", "capabilities": {}, "clientInfo": {"name": "c2", "version": "1"}}}))
                    sids.append(s2)
                use = sids[k % len(sids)]
                kind = k % 4
                if kind == 3:
                    wire = {"jsonrpc": "2.0", "method": "notifications/cancelled", "params": {"requestId": "x"}}
                else:
                    wire = {"jsonrpc": "2.0", "id": k, "method": ["ping", "tools/list", "tools/call"][kind], "params": {"name": "tool0", "arguments": {}} if kind == 2 else {}}
                try:
                    resp, _sid = await ph.handle_message(parse_message(wire), use)
                except Exception as e:  # noqa
                    out.fail("dispatch-raised-on-request" if "id" in wire else "dispatch-raised-on-notification", f"message {k} ({wire.get('method')}) with the id of a session idle for up to {max(case['gaps'])}s: {type(e).__name__}: {e}")
                    return
                if "id" in wire:
                    w = json.loads(resp.model_dump_json(exclude_none=True)) if resp is not None else None
                    if w is None or not strict_eq(w.get("id"), k) or classify(w)[0] not in ("result", "error"):
                        out.fail("request-not-answered", f"message {k}: {w!r}")
                        return
                elif resp is not None:
                    out.fail("notification-answered", f"message {k}: {resp!r}")
                    return

        run_virtual(go)
    except Exception as e:  # noqa
        out.fail("long-life-harness-raised", f"{type(e).__name__}: {e}")
    finally:
        memmod.time = real  # type: ignore
    return out


def check(case: Dict[str, Any]) -> Outcome:
    if "gaps" in case:
        return check_life(case)
    out = Outcome()
    prog = case.get("server", {})
    try:
        wire, msg = build_message(case)
    except Exception as e:  # not a well-formed message by the library's own constructors: outside the domain
        out.classes = ("skipped-not-wellformed",)
        return out
    srv = build_server(prog)
    is_req = "id" in case
    method = case["method"]
    tools = prog.get("tools", [])
    resources = prog.get("resources", [])
    custom = dict(prog.get("custom", []))
    core = {"initialize", "notifications/initialized", "ping", "tools/list", "tools/call", "resources/list", "resources/read"}
    registered = method in core or method in custom

    out.classes = (
        "request" if is_req else "notification",
        "registered" if registered else "unregistered",
        f"how:{case.get('how', 'parse')}",
    ) + (("overlapping-dispatch",) if case.get("overlap") else ())
    handler_kind = None
    params = case.get("params", "$absent")
    if method == "tools/call" and isinstance(params, dict):
        nm = params.get("name")
        if isinstance(nm, str) and nm.startswith("tool") and nm[4:].isdigit() and int(nm[4:]) < len(tools):
            handler_kind = tools[int(nm[4:])]
    if method == "resources/read" and isinstance(params, dict):
        u = params.get("uri")
        if isinstance(u, str) and u.startswith("file:///r") and u[9:].isdigit() and int(u[9:]) < len(resources):
            handler_kind = "res:" + resources[int(u[9:])]
    if method in custom:
        handler_kind = "custom:" + custom[method]
    mid = case.get("id")
    out.nontrivial = (
        (not is_req and method != "notifications/initialized")
        or (handler_kind is not None and handler_kind not in ("str", "res:str", "custom:answer"))
        or (is_req and (mid == 0 or mid == "" or (isinstance(mid, int) and mid < 0)))
    )

    if is_req and handler_kind == "custom:none":
        # a register_method handler that returns no response for a request breaks its own
        # (response, session_id) contract; the repository's suite pins that dispatch passes
        # this through (test_handler_returning_none), so it is outside the property
        out.classes = out.classes + ("skipped-contract-breaking-custom-handler",)
        out.nontrivial = False
        return out

    overlap = case.get("overlap")

    async def go():
        if not overlap:
            return await srv.protocol_handler.handle_message(msg, case.get("session"))
        # a second, unrelated message is dispatched on the same handler while this one is in flight
        import asyncio as _a

        _w2, msg2 = build_message(overlap)

        async def other():
            await _a.sleep(overlap.get("delay", 0.01))
            try:
                return await srv.protocol_handler.handle_message(msg2, None)
            except Exception:
                return None

        t2 = _a.ensure_future(other())
        try:
            return await srv.protocol_handler.handle_message(msg, case.get("session"))
        finally:
            await t2

    try:
        ret = run_virtual(go)
    except Exception as e:  # noqa
        sig = "dispatch-raised-on-request" if is_req else "dispatch-raised-on-notification"
        out.fail(sig, f"{wire!r}: {type(e).__name__}: {str(e)[:200]}")
        return out
    if not (isinstance(ret, tuple) and len(ret) == 2):
        out.fail("dispatch-return-shape", repr(ret))
        return out
    resp = ret[0]
    if not is_req:
        if resp is not None:
            out.fail("notification-was-answered", f"{wire!r} -> {getattr(resp, 'model_dump', lambda **k: resp)()!r}")
        return out
    if resp is None:
        out.fail("request-not-answered", repr(wire))
        return out
    if isinstance(resp, list):
        out.fail("request-answered-with-a-list", repr(wire))
        return out
    try:
        line = resp.model_dump_json(exclude_none=True)
        w = json.loads(line)
    except Exception as e:  # noqa
        out.fail("response-not-serialisable", f"{wire!r}: {type(e).__name__}: {e}")
        return out
    kind, why = classify(w)
    if kind not in ("result", "error"):
        out.fail("response-not-valid-jsonrpc", f"{why}: {w!r}")
        return out
    if not strict_eq(w.get("id"), mid):
        out.fail("response-id-differs", f"request id {mid!r} ({type(mid).__name__}) response id {w.get('id')!r} ({type(w.get('id')).__name__})")
    # round trip through the library's parser
    from chuk_mcp.protocol.messages.json_rpc_message import parse_message

    try:
        back = parse_message(w)
        w2 = json.loads(back.model_dump_json(exclude_none=True))
        d = first_diff(w, w2)
        if d:
            out.fail("response-does-not-reparse-to-itself", d)
    except Exception as e:  # noqa
        out.fail("response-rejected-by-own-parser", f"{w!r}: {e}")

    code = w["error"]["code"] if kind == "error" else None
    # documented codes
    if method == "":
        if code not in (-32600, -32601):
            out.fail("empty-method-wrong-code", repr(w))
        return out
    if not registered:
        if code != -32601:
            out.fail("unregistered-method-not-32601", f"{method!r}: {w!r}")
        return out
    if handler_kind is not None:
        base = handler_kind.split(":")[-1]
        raises = base.startswith("raise") or handler_kind in ("nested_bad_json",)
        if base == "slow_str":
            base = "str"
        if handler_kind == "needs_arg":
            args = params.get("arguments", {}) if isinstance(params, dict) else {}
            ok_args = isinstance(args, dict) and set(args.keys()) == {"x"} and isinstance(args["x"], (int, float)) and not isinstance(args["x"], bool)
            if ok_args and kind != "result":
                out.fail("valid-call-not-answered-with-result", repr(w))
            if not ok_args and code not in (-32602, -32603):
                out.fail("bad-arguments-wrong-code", repr(w))
        elif raises:
            if code != -32603:
                out.fail("raising-handler-not-32603", f"{handler_kind}: {w!r}")
        else:
            args = params.get("arguments", {}) if isinstance(params, dict) else {}
            callable_ok = method != "tools/call" or (isinstance(args, dict) and all(isinstance(k, str) for k in args))
            if callable_ok and kind != "result":
                out.fail("working-handler-not-answered-with-result", f"{handler_kind}: {w!r}")
            if not callable_ok and kind == "error" and code not in (-32602, -32603):
                out.fail("bad-arguments-wrong-code", repr(w))
    elif method in ("tools/call", "resources/read"):
        key = "name" if method == "tools/call" else "uri"
        name = params.get(key) if isinstance(params, dict) else None
        if isinstance(params, dict) or params == "$absent" or params is None:
            scalar = name is None or isinstance(name, (str, int, float, bool))
            if scalar and code != -32602:
                out.fail("unknown-tool-or-resource-not-32602", f"{method} {name!r}: {w!r}")
            if not scalar and code not in (-32602, -32603):
                out.fail("unknown-tool-or-resource-wrong-code", f"{method} {name!r}: {w!r}")
    elif method in ("ping", "tools/list", "resources/list", "initialize"):
        if kind != "result":
            out.fail("core-method-not-answered-with-result", f"{method}: {w!r}")
    return out


# --------------------------------------------------------------------------------------- generators

_ids = st.one_of(
    st.sampled_from([0, -1, 1, 2**63, 2**64 - 1, -(2**63), "", "0", "7", "123", "abc", "x y", "é"]),
    st.integers(-(2**63), 2**64 - 1), json_text,
)


@st.composite
def cases(draw):
    tools = draw(st.lists(st.sampled_from(HANDLER_KINDS), max_size=3))
    resources = draw(st.lists(st.sampled_from(["str", "none", "object", "raise"]), max_size=2))
    custom = draw(st.lists(st.tuples(st.sampled_from(["x/custom", "notifications/cancelled", "notifications/progress", "y/other"]), st.sampled_from(["answer", "raise", "none", "answer_always", "raise_slow", "raise_code_int", "raise_code_str", "raise_code_none", "raise_code_callable"])).map(list), max_size=2, unique_by=lambda t: t[0]))
    prog = {"tools": tools, "resources": resources, "custom": custom}
    method = draw(st.one_of(
        st.sampled_from(["initialize", "ping", "tools/list", "tools/call", "resources/list", "resources/read", "tools/call", "resources/read"]),
        st.sampled_from(notification_names()),
        st.sampled_from([c[0] for c in custom]) if custom else st.just("x/none"),
        st.sampled_from(["", "nope", "tools/List", "rpc.discover", "prompts/list", "notifications/unknown", " ping"]),
        json_text,
    ))
    if method == "tools/call":
        name = draw(st.one_of(st.sampled_from([f"tool{i}" for i in range(4)]), st.sampled_from([None, 5, 1.5, True, ["tool0"], {"a": 1}, "", "nope"])))
        args = draw(st.one_of(st.just("$omit"), st.just({}), st.just({"x": 1}), st.just({"x": "s"}), st.just({"y": 1}), st.none(), st.just([1]), st.just("str"), json_objects(4)))
        params: Any = {"name": name}
        if args != "$omit":
            params["arguments"] = args
        if draw(st.integers(0, 9)) == 0:
            params = draw(st.sampled_from(["$absent", {}, {"arguments": {}}]))
    elif method == "resources/read":
        uri = draw(st.one_of(st.sampled_from([f"file:///r{i}" for i in range(3)]), st.sampled_from([None, 5, ["file:///r0"], {"a": 1}, "", "nope"])))
        params = {"uri": uri}
        if draw(st.integers(0, 9)) == 0:
            params = draw(st.sampled_from(["$absent", {}]))
    elif method == "initialize":
        params = draw(st.sampled_from(["$absent", {}, {"protocolVersion": "2025-06-18", "clientInfo": {"name": "c", "version": "1"}, "capabilities": {}}, {"protocolVersion": 5}, {"clientInfo": None}]))
    else:
        params = draw(st.one_of(st.just("$absent"), st.just({}), json_objects(5)))
    if isinstance(params, dict) and draw(st.integers(0, 3)) == 0:
        # `_meta` is reserved on every params object; a well-formed message may carry anything there
        params = dict(params, _meta=draw(st.one_of(st.none(), st.just({}), st.just({"progressToken": "t-1"}), st.just({"progressToken": 7, "x": None}), json_text, st.integers(-1, 3), st.booleans(),
                                                  st.lists(st.integers(0, 2), max_size=2), json_objects(3))))
    case: Dict[str, Any] = {"server": prog, "method": method, "params": params, "how": draw(st.sampled_from(["parse", "unified", "specific"]))}
    if draw(st.integers(0, 2)) > 0:
        case["id"] = draw(_ids)
    if draw(st.integers(0, 3)) == 0:
        case["session"] = draw(st.sampled_from(["nope", ""]))
    if draw(st.integers(0, 3)) == 0:
        ov: Dict[str, Any] = {"method": draw(st.sampled_from(["ping", "tools/list", "nope", "notifications/cancelled", "tools/call"])), "params": {"name": "tool0", "arguments": {}},
                              "how": draw(st.sampled_from(["parse", "unified", "specific"])), "delay": draw(st.sampled_from([0.0, 0.01, 0.03]))}
        if draw(st.booleans()):
            ov["id"] = draw(st.sampled_from(["other-id", 999, 0]))
        case["overlap"] = ov
    return case


def job_hyp(col: Collector, seed: int, tier: str, shard: int, n: int) -> None:
    hyp_run(col, seed * 1000 + shard, cases(), check, n)


def job_notifs(col: Collector, seed: int, tier: str) -> None:
    """Every standard notification name x {no handler, answering handler, raising handler} x three construction ways."""
    names = notification_names()
    for name in names + ["notifications/unknown", "tools/list", "tools/call", "ping", "resources/read", "initialize", "x/custom"]:
        for custom in ([], [[name, "raise"]], [[name, "none"]], [[name, "answer"]], [[name, "answer_always"]]):
            for how in ("parse", "unified", "specific"):
                for params in ("$absent", {}, {"requestId": "r1", "reason": "x"}):
                    case = {"server": {"tools": ["str"], "resources": [], "custom": custom}, "method": name, "params": params, "how": how}
                    col.record(case, check(case))
    col.exhaustive_parts.append(f"{len(names)} notifications/* names of MessageMethod (+7 other methods sent without id) x 5 handler registrations x 3 constructions x 3 params shapes")
    col.extra["notification_names"] = names


def job_handlers(col: Collector, seed: int, tier: str) -> None:
    """every tool / resource handler behaviour, called by its registered name: x 5 argument shapes x 4 ids x 3 constructions"""
    for kind in HANDLER_KINDS:
        for args in ("$omit", {}, {"x": 1}, None, {"x": "s", "_meta": None}):
            for rid in (1, 0, "a", ""):
                for how in ("parse", "unified", "specific"):
                    params: Dict[str, Any] = {"name": "tool0"}
                    if args != "$omit":
                        params["arguments"] = args
                    case = {"server": {"tools": [kind], "resources": [], "custom": []}, "method": "tools/call", "params": params, "how": how, "id": rid}
                    col.record(case, check(case))
    for kind in ("str", "none", "object", "raise"):
        for rid in (1, 0, "a", ""):
            for how in ("parse", "unified", "specific"):
                case = {"server": {"tools": [], "resources": [kind], "custom": []}, "method": "resources/read", "params": {"uri": "file:///r0"}, "how": how, "id": rid}
                col.record(case, check(case))
    for k in ("raise", "raise_code_int", "raise_code_str", "raise_code_none", "raise_code_callable", "raise_code_jsonrpc"):
        for rid in (1, 0, "a", None):
            for how in ("parse", "unified", "specific"):
                case = {"server": {"tools": [], "resources": [], "custom": [["x/custom", k]]}, "method": "x/custom", "params": {}, "how": how}
                if rid is not None:
                    case["id"] = rid
                col.record(case, check(case))
    col.exhaustive_parts.append(f"{len(HANDLER_KINDS)} tool handler behaviours x 5 argument shapes x 4 ids x 3 constructions; 4 resource handler behaviours x 4 ids x 3 constructions")


def job_life(col: Collector, seed: int, tier: str) -> None:
    for n, gap_every, gaps in ((200, 1, [3601]), (300, 7, [7200, 10, 86400]), (260, 63, [3700]), (260, 64, [3700]), (260, 65, [3700]), (400, 16, [3599, 3601]), (150, 3, [0, 1, 4000])):
        case = {"n": n, "gap_every": gap_every, "gaps": gaps}
        col.record(case, check(case))
    col.exhaustive_parts.append("7 long-lived connections: 150..400 session-bound messages with clock gaps of up to a day at various periods")


JOBS = {"hyp": job_hyp, "notifs": job_notifs, "handlers": job_handlers, "life": job_life}


def jobs(tier: str):
    if tier == "quick":
        return [("hyp", {"shard": s, "n": 400}) for s in range(13)] + [("notifs", {}), ("handlers", {}), ("life", {})]
    return [("hyp", {"shard": s, "n": 7000}) for s in range(14)] + [("notifs", {}), ("handlers", {}), ("life", {})]


def shrink(signature: str, seed: int):
    return hyp_shrink(seed * 1000, cases(), check, signature, 2000)
