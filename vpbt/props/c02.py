"""C02 - everything emitted is valid JSON-RPC 2.0 and survives the library's own parser."""
from __future__ import annotations

import asyncio
import inspect
import itertools
import json
from typing import Any, Dict, List, Optional, Tuple

from hypothesis import strategies as st

from ..drive import drive
from ..helpers import discover_helpers, discover_notification_senders, synth_args, synth_value
from ..jsongen import LEAVES, grammar_objects, id_is_interesting, is_nontrivial_json, json_objects, json_text, json_values, request_ids
from ..jsonrpc_ref import classify, first_diff, strict_eq
from ..logmode import debug_logging
from ..runner import Collector, Outcome, hyp_run, hyp_shrink

ID = "C02"
LEVEL = "exploration"
RULE = (
    "case = (emitter, id, payload): emitters are the four message constructors, the JSONRPCMessage.create_* classmethods and to/from_specific_type, every discovered send_* request "
    "helper and *_notification sender (captured from the write stream), BatchProcessor rejection/item errors, the elicitation / roots builders, and the transports' serialisers "
    "(stdio: bytes at the scripted child's stdin, also with lines beyond 64 KiB and with server batches arriving mid-write whose -32600 rejections share the pipe; Streamable HTTP and SSE: POST bodies seen by a mock HTTP server) fed with those objects; payloads = JSON objects from a "
    "bounded-exhaustive grammar (depth<=2 over a 25-leaf alphabet incl. nested nulls, 64-bit ints, control/line-separator/astral characters) plus Hypothesis deep values; ids = ints "
    "incl. 0, negatives, 2^63..2^64-1 and strings incl. digit strings; both validation backends (the fallback backend in a fresh interpreter); oracle: independent JSON-RPC 2.0 grammar "
    "on the emitted wire form + parse_message(emitted) has the same kind and type-strictly identical id/method/params/result/error; non-trivial = payload has a nested null, non-ASCII/control "
    "character or int beyond 2^53, or the id is 0 / negative / digit string / >=2^63; distinct = distinct (emitter, id, payload)"
    "; added in rounds 6-7 of the seeded changes: transport legs also send messages built by calling the envelope classes directly; 12 awkward texts in every textual position through each serialiser; a share of cases with logging at DEBUG"
)
ASSUMPTIONS = [
    "top-level result=None is documented to become {} and is excluded from the result domain; bool ids are outside the id domain; the empty-string id is excluded for emitters that treat a falsy id as 'generate one'",
    "the emitted wire form of a message object is model_dump_json(exclude_none=True), which is what every transport writes",
]
EXHAUSTIVE = {"quick": False, "thorough": False}
META = {
    "text": "Introspective enumeration of emitters x generated ids and payloads, checked against an independent JSON-RPC 2.0 grammar and a type-strict round trip through the library's own parser, in both validation backends.",
    "technique": "Hypothesis + bounded-exhaustive JSON grammar over introspectively enumerated emitters; oracle = independent grammar + parser round trip",
}


def _wire(msg: Any) -> Any:
    if isinstance(msg, dict):
        return json.loads(json.dumps(msg))
    return json.loads(msg.model_dump_json(exclude_none=True))


def roundtrip_check(out: Outcome, emitter: str, w: Any, expect: Optional[Dict[str, Any]] = None) -> None:
    """grammar + reparse of one emitted wire object; `expect` = members that were put in."""
    from chuk_mcp.protocol.messages.json_rpc_message import parse_message

    kind, why = classify(w)
    if kind is None:
        out.fail(f"emitted-invalid-jsonrpc:{emitter}", f"{why}: {json.dumps(w)[:300]}")
        return
    if expect is not None:
        if expect.get("kind") and expect["kind"] != kind:
            out.fail(f"emitted-wrong-kind:{emitter}", f"put in {expect['kind']} got {kind}: {w!r}"[:400])
            return
        for m in expect.get("absent", []):
            if m in w:
                out.fail(f"emitted-absent-member-as-{json.dumps(w[m])[:12]}:{m}:{emitter}", f"{json.dumps(w)[:300]}")
                return
        for m in ("id", "method", "params", "result", "error"):
            if m in expect:
                if m not in w:
                    out.fail(f"emitted-member-lost:{m}:{emitter}", f"put in {expect[m]!r}; emitted {json.dumps(w)[:300]}")
                    return
                d = first_diff(w[m], expect[m])
                if d:
                    out.fail(f"emitted-member-changed:{m}:{emitter}", d[:400])
                    return
    try:
        back = parse_message(w)
    except Exception as e:  # noqa
        out.fail(f"own-parser-rejects-emitted:{emitter}", f"{type(e).__name__}: {str(e)[:200]} for {json.dumps(w)[:300]}")
        return
    try:
        w2 = json.loads(back.model_dump_json(exclude_none=True))
    except Exception as e:  # noqa
        out.fail(f"reparsed-not-serialisable:{emitter}", str(e)[:200])
        return
    k2, _ = classify(w2)
    if k2 != kind:
        out.fail(f"reparse-changes-kind:{emitter}", f"{kind} -> {k2}: {w2!r}"[:400])
        return
    for m in ("id", "method", "params", "result", "error"):
        if (m in w) != (m in w2):
            out.fail(f"reparse-drops-or-adds-member:{m}:{emitter}", f"{w!r} -> {w2!r}"[:400])
            return
        if m in w:
            d = first_diff(w2[m], w[m])
            if d:
                sig = "reparse-changes-id-type" if m == "id" and str(w[m]) == str(w2[m]) else f"reparse-changes-member:{m}"
                out.fail(f"{sig}:{emitter}", d[:400])
                return


CONSTRUCTORS = [
    "create_request", "create_notification", "create_response", "create_error_response",
    "JSONRPCMessage.create_request", "JSONRPCMessage.create_notification", "JSONRPCMessage.create_response", "JSONRPCMessage.create_error_response",
    "to_specific_type", "from_specific_type", "JSONRPCRequest()", "JSONRPCResponse()", "JSONRPCError()", "JSONRPCNotification()",
    "BatchProcessor.create_batch_rejection_error", "BatchProcessor.item_error",
    "handle_roots_list_request", "ElicitationClient.handle_elicitation_request", "ElicitationClient.error", "stdio-writer",
    "deferred-progress-requests",
]


def check(case: Dict[str, Any]) -> Outcome:
    import chuk_mcp.protocol.messages.json_rpc_message as J

    out = Outcome()
    em = case["emitter"]
    if em.startswith("helper:") or em.startswith("notif:"):
        return check_helper(case)
    i = case.get("id", 1)
    payload = case.get("payload", {})
    method = case.get("method", "x/y")
    code = case.get("code", -32000)
    emsg = case.get("message", "m")
    out.nontrivial = is_nontrivial_json(payload) or id_is_interesting(i)
    out.classes = (f"emitter:{em}", "id:" + type(i).__name__)
    exp: Dict[str, Any]
    try:
        if em == "create_request":
            w = _wire(J.create_request(method, payload, id=i)); exp = {"kind": "request", "id": i, "method": method, "params": payload}
        elif em == "create_notification":
            w = _wire(J.create_notification(method, payload)); exp = {"kind": "notification", "method": method, "params": payload}
        elif em == "create_response":
            res = case.get("result", payload)
            if case.get("none_result"):
                w = _wire(J.create_response(i, None)); exp = {"kind": "result", "id": i, "absent": ["error", "method"]}
            else:
                w = _wire(J.create_response(i, res)); exp = {"kind": "result", "id": i, "result": res}
        elif em == "create_error_response":
            w = _wire(J.create_error_response(i, code, emsg, payload)); exp = {"kind": "error", "id": i, "error": {"code": code, "message": emsg, "data": payload}}
        elif em == "JSONRPCMessage.create_request":
            w = _wire(J.JSONRPCMessage.create_request(method, payload, id=i)); exp = {"kind": "request", "id": i, "method": method, "params": payload}
        elif em == "JSONRPCMessage.create_notification":
            w = _wire(J.JSONRPCMessage.create_notification(method, payload)); exp = {"kind": "notification", "method": method, "params": payload}
        elif em == "JSONRPCMessage.create_response":
            w = _wire(J.JSONRPCMessage.create_response(i, payload)); exp = {"kind": "result", "id": i, "result": payload}
        elif em == "JSONRPCMessage.create_error_response":
            w = _wire(J.JSONRPCMessage.create_error_response(i, code, emsg, payload)); exp = {"kind": "error", "id": i, "error": {"code": code, "message": emsg, "data": payload}}
        elif em == "to_specific_type":
            shape = case.get("shape", "request")
            if shape == "request":
                u = J.JSONRPCMessage(jsonrpc="2.0", id=i, method=method, params=payload); exp = {"kind": "request", "id": i, "method": method, "params": payload}
            elif shape == "notification":
                u = J.JSONRPCMessage(jsonrpc="2.0", method=method, params=payload); exp = {"kind": "notification", "method": method, "params": payload}
            elif shape == "result":
                u = J.JSONRPCMessage(jsonrpc="2.0", id=i, result=payload); exp = {"kind": "result", "id": i, "result": payload}
            else:
                u = J.JSONRPCMessage(jsonrpc="2.0", id=i, error={"code": code, "message": emsg, "data": payload}); exp = {"kind": "error", "id": i, "error": {"code": code, "message": emsg, "data": payload}}
            w = _wire(u.to_specific_type())
        elif em == "from_specific_type":
            shape = case.get("shape", "request")
            if shape == "request":
                sp: Any = J.JSONRPCRequest(id=i, method=method, params=payload); exp = {"kind": "request", "id": i, "method": method, "params": payload}
            elif shape == "notification":
                sp = J.JSONRPCNotification(method=method, params=payload); exp = {"kind": "notification", "method": method, "params": payload}
            elif shape == "result":
                sp = J.JSONRPCResponse(id=i, result=payload); exp = {"kind": "result", "id": i, "result": payload}
            else:
                sp = J.JSONRPCError(id=i, error={"code": code, "message": emsg, "data": payload}); exp = {"kind": "error", "id": i, "error": {"code": code, "message": emsg, "data": payload}}
            w = _wire(J.JSONRPCMessage.from_specific_type(sp))
        elif em == "JSONRPCRequest()":
            w = _wire(J.JSONRPCRequest(id=i, method=method, params=payload)); exp = {"kind": "request", "id": i, "method": method, "params": payload}
        elif em == "JSONRPCNotification()":
            w = _wire(J.JSONRPCNotification(method=method, params=payload)); exp = {"kind": "notification", "method": method, "params": payload}
        elif em == "JSONRPCResponse()":
            res = case.get("result", payload)
            w = _wire(J.JSONRPCResponse(id=i, result=res)); exp = {"kind": "result", "id": i, "result": res}
        elif em == "JSONRPCError()":
            w = _wire(J.JSONRPCError(id=i, error={"code": code, "message": emsg})); exp = {"kind": "error", "id": i, "error": {"code": code, "message": emsg}}
        elif em == "BatchProcessor.create_batch_rejection_error":
            from chuk_mcp.protocol.features.batching import BatchProcessor

            bp = BatchProcessor(case.get("version", "2025-06-18"))
            w = json.loads(json.dumps(bp.create_batch_rejection_error(case.get("bid")))); exp = {"kind": "error"}
        elif em == "BatchProcessor.item_error":
            from chuk_mcp.protocol.features.batching import BatchProcessor

            bp = BatchProcessor("2025-03-26")

            def bad(item):
                kind = case.get("exc", "runtime")
                if kind == "runtime":
                    raise RuntimeError("boom " + emsg)
                if kind == "library-validation":
                    from chuk_mcp.protocol.types.errors import ValidationError as LibValidationError

                    raise LibValidationError("bad params " + emsg)
                e = RuntimeError("driver error " + emsg)
                e.code = {"code-str": "rate_limit_exceeded", "code-none": None, "code-int": 429, "code-float": 4.5, "code-bool": True}[kind]  # type: ignore
                raise e

            r = bp.process_message_data([{"jsonrpc": "2.0", "id": i, "method": method, "params": payload}], bad)
            w = json.loads(json.dumps(r[0])); exp = {"kind": "error", "id": i}
        elif em == "handle_roots_list_request":
            from chuk_mcp.protocol.messages.roots.send_messages import Root, handle_roots_list_request
            from ..vclock import run_virtual

            roots = [Root(uri="file:///" + (emsg or "a"), name=method)]

            async def go():
                return await handle_roots_list_request(roots, i)

            w = _wire(run_virtual(go)); exp = {"kind": "result", "id": i}
        elif em in ("ElicitationClient.handle_elicitation_request", "ElicitationClient.error"):
            from chuk_mcp.protocol.types.elicitation import ElicitationClient
            from ..vclock import run_virtual

            async def user(message, schema, title):
                if em.endswith("error"):
                    raise RuntimeError(emsg)
                return payload

            schema: Dict[str, Any] = {}
            if case.get("schema_required") is not None:
                # a schema that names required fields; the user's answer (the payload) may or may not contain them
                schema = {"type": "object", "properties": {k_: {"type": "string"} for k_ in case["schema_required"]}, "required": case["schema_required"]}

            async def go():
                return await ElicitationClient(user).handle_elicitation_request({"jsonrpc": "2.0", "id": i, "method": "elicitation/create", "params": {"message": "q", "schema": schema}})

            w = json.loads(json.dumps(run_virtual(go)))
            if em.endswith("error"):
                exp = {"kind": "error", "id": i}
            elif case.get("schema_required") is not None:
                exp = {"id": i}  # a result or an error - but one valid response either way
                out.classes = out.classes + ("elicitation:answer-vs-required-fields",)
            else:
                exp = {"kind": "result", "id": i, "result": {"data": payload, "cancelled": False}}
        elif em == "deferred-progress-requests":
            # build several requests first, serialise afterwards: each must keep its own token and params
            toks = case.get("tokens", ["t1", 2])
            built = []
            for k_, tok in enumerate(toks):
                p_k = None if case.get("no_params") else dict(payload, k=k_)
                built.append((J.create_request(method, p_k, id=f"{i}-{k_}" if isinstance(i, str) else i + k_, progress_token=tok), p_k, tok, k_))
            for msg_k, p_k, tok, k_ in built:
                w_k = _wire(msg_k)
                want = dict(p_k or {})
                meta = dict(want.get("_meta", {})) if isinstance(want.get("_meta"), dict) else {}
                meta["progressToken"] = tok
                want["_meta"] = meta
                roundtrip_check(out, em, w_k, {"kind": "request", "method": method, "params": want})
                if out.failures:
                    break
            return out
        elif em == "stdio-writer":
            return check_stdio_writer(case)
        elif em in ("http-post", "sse-post"):
            return check_http_writer(case)
        else:
            raise ValueError(em)
    except Exception as e:  # noqa
        # constructing with an in-domain id/payload must not fail
        out.fail(f"emitter-raised:{em}", f"{type(e).__name__}: {str(e)[:300]} id={i!r} payload={payload!r}"[:600])
        return out
    roundtrip_check(out, em, w, exp)
    return out


def _messages_for_transport(case: Dict[str, Any]) -> List[Tuple[Any, Dict[str, Any]]]:
    import chuk_mcp.protocol.messages.json_rpc_message as J

    i, payload, method = case.get("id", 1), case.get("payload", {}), case.get("method", "x/y")
    code, emsg = case.get("code", -32000), case.get("message", "m")
    if case.get("pad"):
        # an inlined blob: the serialised message is larger than a pipe buffer / any write-slicing threshold
        payload = dict(payload, blob=("x\u00e9" * (case["pad"] // 2 + 1))[: case["pad"]])
    return [
        (J.create_request(method, payload, id=i), {"kind": "request", "id": i, "method": method, "params": payload}),
        (J.create_notification(method, payload), {"kind": "notification", "method": method, "params": payload}),
        (J.create_response(i, payload), {"kind": "result", "id": i, "result": payload}),
        (J.create_error_response(i, code, emsg, payload), {"kind": "error", "id": i, "error": {"code": code, "message": emsg, "data": payload}}),
        (J.JSONRPCMessage.create_request(method, payload, id=i), {"kind": "request", "id": i, "method": method, "params": payload}),
        ({"jsonrpc": "2.0", "id": i, "method": method, "params": payload}, {"kind": "request", "id": i, "method": method, "params": payload}),
        (J.create_request(method, None, id=i), {"kind": "request", "id": i, "method": method, "absent": ["params", "result", "error"]}),
        # a handler for a "void" method answers with whatever its action returned - None: still one valid response on the wire
        (J.create_response(i, None), {"kind": "result", "id": i, "absent": ["error", "method"]}),
        (J.create_response(i), {"kind": "result", "id": i, "absent": ["error", "method"]}),
        (J.create_notification(method), {"kind": "notification", "method": method, "absent": ["params", "id", "result", "error"]}),
        (J.JSONRPCMessage.create_notification(method), {"kind": "notification", "method": method, "absent": ["params", "id", "result", "error"]}),
        # the envelope classes called directly: the version member takes its default, nobody passes it
        (J.JSONRPCRequest(id=i, method=method, params=payload), {"kind": "request", "id": i, "method": method, "params": payload}),
        (J.JSONRPCNotification(method=method, params=payload), {"kind": "notification", "method": method, "params": payload}),
        (J.JSONRPCResponse(id=i, result=payload), {"kind": "result", "id": i, "result": payload}),
        (J.JSONRPCError(id=i, error={"code": code, "message": emsg, "data": payload}), {"kind": "error", "id": i, "error": {"code": code, "message": emsg, "data": payload}}),
        (J.JSONRPCMessage(id=i, method=method, params=payload), {"kind": "request", "id": i, "method": method, "params": payload}),
        (J.JSONRPCMessage(method=method), {"kind": "notification", "method": method, "absent": ["params", "id", "result", "error"]}),
        (J.parse_message({"jsonrpc": "2.0", "id": i, "method": method, "params": payload}), {"kind": "request", "id": i, "method": method, "params": payload}),
    ]


BATCH_LINE = b'[{"jsonrpc":"2.0","method":"notifications/message","params":{"level":"info","data":1}}]\n'


def check_stdio_writer(case: Dict[str, Any]) -> Outcome:
    from chuk_mcp.transports.stdio.stdio_client import StdioClient
    from ..fakeproc import FakeProcess, patched_open_process, stdio_params
    from ..vclock import run_virtual

    out = Outcome()
    out.nontrivial = is_nontrivial_json(case.get("payload", {})) or id_is_interesting(case.get("id", 1))
    out.classes = ("emitter:stdio-writer",)
    msgs = _messages_for_transport(case)
    procs: List[FakeProcess] = []

    async def main():
        with patched_open_process(procs):
            async with StdioClient(stdio_params()) as client:
                _r, w = client.get_streams()
                if inbound:
                    client.set_protocol_version("2025-06-18")  # the reader task answers server batches with -32600 on the same stdin
                for k_, (m, _) in enumerate(msgs):
                    if inbound.get(k_) == -1:
                        procs[0].stdout.feed(BATCH_LINE)
                    await w.send(m)
                    if inbound.get(k_, -1) >= 0:
                        # the server's batch arrives d scheduler turns into the write of message k
                        for _y in range(inbound[k_]):
                            await asyncio.sleep(0)
                        procs[0].stdout.feed(BATCH_LINE)
                await asyncio.sleep(0.05)

    inbound = {k: d for k, d in case.get("inbound", []) if k < len(msgs)}
    if case.get("debug_log"):
        out.classes = out.classes + ("logging:DEBUG",)
    if inbound or case.get("pad"):
        out.classes = out.classes + (("stdio-writer:inbound-batch-rejections",) if inbound else ()) + (("stdio-writer:lines>64KiB",) if case.get("pad", 0) > 65536 else ())
    with debug_logging(bool(case.get("debug_log"))):
        run_virtual(main)
    data = procs[0].stdin.data
    lines = data.split(b"\n")
    if lines[-1] != b"":
        out.fail("stdio-writer-unterminated-line", repr(data[-80:]))
        return out
    lines = lines[:-1]
    if inbound:
        # every line on the wire - the library's own batch rejections included - must be a whole JSON-RPC object
        keep, rej = [], 0
        for ln in lines:
            try:
                v_ = json.loads(ln.decode("utf-8"))
            except Exception:
                out.fail("stdio-writer-line-not-json", f"{ln[:120]!r} ... ({len(ln)} bytes)")
                return out
            if isinstance(v_, dict) and v_.get("id") is None and "method" not in v_ and isinstance(v_.get("error"), dict) and v_["error"].get("code") == -32600:
                rej += 1
                roundtrip_check(out, "stdio-batch-rejection", v_, {"kind": "error", "id": None})
            else:
                keep.append(ln)
        if rej != len(inbound):
            out.fail("stdio-batch-rejection-count", f"{rej} rejection lines for {len(inbound)} inbound batches")
            return out
        lines = keep
    if len(lines) != len(msgs):
        out.fail("stdio-writer-line-count", f"{len(lines)} lines for {len(msgs)} messages")
        return out
    for line, (_, exp) in zip(lines, msgs):
        try:
            w = json.loads(line.decode("utf-8"))
        except Exception as e:  # noqa
            out.fail("stdio-writer-line-not-json", repr(line[:200]))
            return out
        roundtrip_check(out, "stdio-writer", w, exp)
    return out


def check_http_writer(case: Dict[str, Any]) -> Outcome:
    from ..fakehttp import post_bodies_for

    out = Outcome()
    out.nontrivial = is_nontrivial_json(case.get("payload", {})) or id_is_interesting(case.get("id", 1))
    em = case["emitter"]
    out.classes = (f"emitter:{em}",)
    msgs = _messages_for_transport(case)
    if case.get("debug_log"):
        out.classes = out.classes + ("logging:DEBUG",)
    with debug_logging(bool(case.get("debug_log"))):
        bodies = post_bodies_for("http" if em == "http-post" else "sse", [m for m, _ in msgs])
    if len(bodies) != len(msgs):
        out.fail(f"{em}-body-count", f"{len(bodies)} POST bodies for {len(msgs)} messages")
        return out
    for body, (_, exp) in zip(bodies, msgs):
        try:
            w = json.loads(body.decode("utf-8"))
        except Exception as e:  # noqa
            out.fail(f"{em}-body-not-json", repr(body[:200]))
            return out
        roundtrip_check(out, em, w, exp)
    return out


_H: Optional[Dict[str, Any]] = None
_N: Optional[Dict[str, Any]] = None


def helpers() -> Dict[str, Any]:
    global _H
    if _H is None:
        _H = dict(discover_helpers())
    return _H


def notif_senders() -> Dict[str, Any]:
    global _N
    if _N is None:
        _N = dict(discover_notification_senders())
    return _N


def check_helper(case: Dict[str, Any]) -> Outcome:
    out = Outcome()
    em = case["emitter"]
    payload = case.get("payload", {})
    text = case.get("text", "x")
    out.nontrivial = is_nontrivial_json(payload) or is_nontrivial_json(text)
    out.classes = ("emitter:" + em.split(":")[0],)
    if em.startswith("helper:"):
        name = em[7:]
        fn = helpers().get(name)
        if fn is None:
            out.classes = ("skipped-unknown",)
            out.nontrivial = False
            return out
        kwargs = synth_args(name, fn)
        # inject generated payload/text where the helper takes free-form values
        for k, v in list(kwargs.items()):
            if k == "arguments":
                kwargs[k] = payload
            elif k in ("metadata",):
                kwargs[k] = payload
            elif isinstance(v, str) and k not in ("level", "uri", "resource_uri"):
                kwargs[k] = text
        if name == "send_sampling_create_message":
            kwargs["metadata"] = payload
            kwargs["system_prompt"] = text

        async def call(r, w):
            return await fn(r, w, timeout=0.3, **kwargs)

        res = drive(call, [])
    else:
        name = em[6:]
        fn = notif_senders().get(name)
        if fn is None:
            out.classes = ("skipped-unknown",)
            out.nontrivial = False
            return out
        hints = {}
        try:
            import typing

            hints = typing.get_type_hints(fn)
        except Exception:
            pass
        kwargs = {}
        try:
            for pname, p in inspect.signature(fn).parameters.items():
                if pname == "write_stream":
                    continue
                ann = hints.get(pname, p.annotation)
                if pname in ("progress_token", "request_id"):
                    kwargs[pname] = case.get("id", "tok")
                elif pname in ("reason", "message", "uri") or ann is str:
                    kwargs[pname] = ("file:///" + text) if pname == "uri" else text
                elif p.default is inspect.Parameter.empty:
                    kwargs[pname] = synth_value(ann, pname)
        except TypeError as e:
            out.classes = ("skipped-undrivable",)
            out.nontrivial = False
            return out

        async def call(r, w):
            return await fn(w, **kwargs)

        res = drive(call, [], wait_first_write=False)
    if not res.written:
        out.fail(f"emitter-wrote-nothing:{em}", f"outcome={res.outcome} exc={res.exc!r}")
        return out
    for _, m in res.written_raw:
        try:
            w = _wire(m)
        except Exception as e:  # noqa
            out.fail(f"emitted-not-serialisable:{em}", str(e)[:200])
            continue
        exp: Dict[str, Any] = {"kind": "request" if em.startswith("helper:") else "notification"}
        roundtrip_check(out, em, w, exp)
        # generated payload must appear intact where it was put
        if em == "helper:send_tools_call" and not strict_eq((w.get("params") or {}).get("arguments"), payload):
            out.fail("helper-altered-arguments:send_tools_call", str(first_diff((w.get("params") or {}).get("arguments"), payload)))
        if em.startswith("notif:") and "request_id" in kwargs and "requestId" in (w.get("params") or {}):
            if not strict_eq(w["params"]["requestId"], kwargs["request_id"]):
                out.fail("notification-altered-request-id", f"{kwargs['request_id']!r} -> {w['params']['requestId']!r}")
        if em.startswith("notif:") and "progress_token" in kwargs and "progressToken" in (w.get("params") or {}):
            if not strict_eq(w["params"]["progressToken"], kwargs["progress_token"]):
                out.fail("notification-altered-progress-token", f"{kwargs['progress_token']!r} -> {w['params']['progressToken']!r}")
    return out


# --------------------------------------------------------------------------------------- generators

_ID_DOMAIN = st.one_of(
    st.sampled_from([0, -1, 1, 7, 2**53 + 1, 2**63, 2**64 - 1, -(2**63), "0", "7", "123", "007", "-5", "abc", "req-1", "é", "a\nb"]),
    request_ids.filter(lambda i: i != ""),
)

SIMPLE_EMITTERS = [e for e in CONSTRUCTORS if e not in ("stdio-writer",)]


@st.composite
def cases(draw, emitters: List[str]):
    em = draw(st.sampled_from(emitters))
    case: Dict[str, Any] = {"emitter": em, "id": draw(_ID_DOMAIN), "payload": draw(json_objects(10)),
                            "method": draw(st.sampled_from(["x/y", "tools/call", "é/\n", "m"])),
                            "code": draw(st.one_of(st.sampled_from([-32700, -32000, 0, 1, 2**31, -(2**63)]), st.integers(-40000, 40000))),
                            "message": draw(json_text)}
    if em in ("to_specific_type", "from_specific_type"):
        case["shape"] = draw(st.sampled_from(["request", "notification", "result", "error"]))
    if em == "create_response" and draw(st.integers(0, 5)) == 0:
        case["none_result"] = True
    if em in ("JSONRPCResponse()", "create_response"):
        case["result"] = draw(st.one_of(json_objects(6), st.lists(json_values(3), max_size=3), st.sampled_from([[], 0, 0.0, "", False]), st.integers(-3, 3), json_text, st.booleans(), st.floats(allow_nan=False, allow_infinity=False)))
    if em == "BatchProcessor.create_batch_rejection_error":
        case["bid"] = draw(st.one_of(st.none(), _ID_DOMAIN))
        case["version"] = draw(st.sampled_from(["2025-06-18", "2026-01-01", "é"]))
    if em.startswith(("helper:", "notif:")):
        case["text"] = draw(json_text)
    if em == "BatchProcessor.item_error":
        case["exc"] = draw(st.sampled_from(["runtime", "library-validation", "code-str", "code-none", "code-int", "code-float", "code-bool"]))
    if em == "deferred-progress-requests":
        case["tokens"] = draw(st.lists(st.one_of(st.integers(0, 9), st.sampled_from(["a", "b", "tok-\u00e9"])), min_size=2, max_size=4, unique_by=lambda t: (type(t).__name__, t)))
        case["no_params"] = draw(st.booleans())
        case["id"] = draw(st.one_of(st.integers(0, 1000), st.sampled_from(["r", "7"])))
    if em == "ElicitationClient.handle_elicitation_request" and draw(st.booleans()):
        case["schema_required"] = draw(st.sampled_from([[], ["name"], ["name", "k"], "name", None, [1]])) if draw(st.integers(0, 4)) else None
        if case["schema_required"] is None:
            del case["schema_required"]
    if em in ("stdio-writer", "http-post", "sse-post") and draw(st.integers(0, 2)) == 0:
        case["debug_log"] = True  # the application runs with logging.basicConfig(level=DEBUG)
    if em == "stdio-writer":
        if draw(st.integers(0, 3)) == 0:
            case["pad"] = draw(st.sampled_from([30000, 66000, 70000, 140000]))
        if draw(st.integers(0, 2)) == 0:
            ks = sorted(set(draw(st.lists(st.integers(0, 17), min_size=1, max_size=3))))
            case["inbound"] = [[k, draw(st.sampled_from([-1, 0, 1, 2, 3, 5]))] for k in ks]
    return case


def job_hyp(col: Collector, seed: int, tier: str, shard: int, n: int, group: str, backend: str = "pydantic") -> None:
    if group == "constructors":
        ems = SIMPLE_EMITTERS
    elif group == "helpers":
        ems = ["helper:" + h for h in sorted(helpers())] + ["notif:" + h for h in sorted(notif_senders())]
    else:
        ems = ["stdio-writer", "http-post", "sse-post"]
        try:
            from .. import fakehttp  # noqa
        except ImportError:
            ems = ["stdio-writer"]
            col.uncovered.append("http/sse POST serialisers: fakehttp not available")
    col.extra.setdefault("emitters", [])
    col.extra["emitters"] = sorted(set(ems))
    col.extra["backend_" + backend] = 1
    hyp_run(col, seed * 1000 + shard, cases(ems), check, n)


def job_grammar(col: Collector, seed: int, tier: str, shard: int, nshards: int, backend: str = "pydantic") -> None:
    """bounded-exhaustive payload grammar through the four constructors."""
    ids = [1, 0, "0", 2**63]
    k = 0
    from ..jsongen import grammar

    subs = list(grammar(1, LEAVES, ["k", ""], 1))  # leaves, [], {}, [leaf], {k: leaf}
    keys = ["k", "", "é", "_meta"]

    def objects():
        yield {}
        for a in keys:
            for x in subs:
                yield {a: x}
        for a, b in itertools.combinations(keys, 2):
            for x in subs:
                for y in subs:
                    yield {a: x, b: y}

    stride = 8 if tier == "quick" else 1
    for obj in objects():
        k += 1
        if k % nshards != shard or (k // nshards) % stride:
            continue
        for em in ("create_request", "create_notification", "create_response", "create_error_response"):
            case = {"emitter": em, "id": ids[k % 4], "payload": obj}
            col.record(case, check(case))
    if shard == 0:
        if stride == 1:
            col.exhaustive_parts.append("payload grammar: JSON objects with <=2 members (4 keys) whose values are leaves / [] / {} / [leaf] / {k: leaf} over a 25-leaf alphabet, through the four constructors")


def job_transports_enum(col: Collector, seed: int, tier: str, backend: str = "pydantic") -> None:
    """the transports' serialisers with a fixed list of awkward texts in every position (payload value, payload member
    name, method name, string id, error message): line separators of every kind, controls, quotes, astral characters"""
    texts = ["a\u2028b", "\u2029", "x\u0085y", "line\nfeed\r\n", "tab\tquote\"back\\slash", "\x00\x1f\x7f", "\U0001F600\U0010FFFF", "\ufeffbom", " edge ", "\u00e9\u65e5", "\x0b\x0c\x1c\x1d\x1e", ""]
    for em in ("stdio-writer", "http-post", "sse-post"):
        for k, t in enumerate(texts):
            for dbg in (False, True):
                case = {"emitter": em, "id": ("i" + t) if t else 7, "payload": {"t": t, ("k" + t): [t, None], "n": 2**63}, "method": ("m/" + t) if k % 2 else "tools/call", "code": -32000 - k, "message": t}
                if dbg:
                    case["debug_log"] = True
                if em == "stdio-writer" and k % 4 == 1:
                    case["pad"] = 70000
                col.record(case, check(case))
    col.extra["backend_" + backend] = 1
    col.exhaustive_parts.append(f"{len(texts)} awkward texts in every textual position x 3 transport serialisers x logging default / DEBUG")


JOBS = {"hyp": job_hyp, "grammar": job_grammar, "transports_enum": job_transports_enum}

FB = {"MCP_FORCE_FALLBACK": "1"}


def jobs(tier: str):
    if tier == "quick":
        return (
            [("hyp", {"shard": s, "n": 500, "group": "constructors"}) for s in range(3)]
            + [("hyp", {"shard": 10 + s, "n": 300, "group": "helpers"}) for s in range(2)]
            + [("hyp", {"shard": 20, "n": 150, "group": "transports"})]
            + [("grammar", {"shard": s, "nshards": 3}) for s in range(3)]
            + [("hyp", {"shard": 30 + s, "n": 400, "group": "constructors", "backend": "fallback", "_env": FB}) for s in range(2)]
            + [("hyp", {"shard": 40, "n": 300, "group": "helpers", "backend": "fallback", "_env": FB})]
            + [("hyp", {"shard": 50, "n": 100, "group": "transports", "backend": "fallback", "_env": FB})]
            + [("grammar", {"shard": 0, "nshards": 3, "backend": "fallback", "_env": FB})]
            + [("transports_enum", {}), ("transports_enum", {"backend": "fallback", "_env": FB})]
        )
    return (
        [("hyp", {"shard": s, "n": 8000, "group": "constructors"}) for s in range(3)]
        + [("hyp", {"shard": 10 + s, "n": 5000, "group": "helpers"}) for s in range(2)]
        + [("hyp", {"shard": 20, "n": 3000, "group": "transports"})]
        + [("grammar", {"shard": s, "nshards": 6}) for s in range(6)]
        + [("hyp", {"shard": 30 + s, "n": 6000, "group": "constructors", "backend": "fallback", "_env": FB}) for s in range(2)]
        + [("hyp", {"shard": 40, "n": 4000, "group": "helpers", "backend": "fallback", "_env": FB})]
        + [("hyp", {"shard": 50, "n": 2000, "group": "transports", "backend": "fallback", "_env": FB})]
        + [("grammar", {"shard": 0, "nshards": 6, "backend": "fallback", "_env": FB})]
        + [("transports_enum", {}), ("transports_enum", {"backend": "fallback", "_env": FB})]
    )


def shrink(signature: str, seed: int):
    return None
