"""Run one job (pickled on stdin) in this fresh interpreter; pickle the result to stdout."""
import pickle
import sys


def main() -> None:
    args = pickle.loads(sys.stdin.buffer.read())
    out = sys.stdout.buffer
    sys.stdout = sys.stderr
    from vpbt.runner import _worker

    res = _worker(args)
    out.write(pickle.dumps(res))
    out.flush()


if __name__ == "__main__":
    main()
