"""Virtual-time driver for the (read_stream, write_stream) client API.

`drive(call, schedule)` runs `call(read_stream, write_stream)` on the virtual loop while a
feeder places scheduled items on the read stream at exact virtual instants.  Items may be
templates: any string "$ID" inside them is replaced by the id of the first captured
request; "$TOKEN" by its params._meta.progressToken.  Items are turned into library
message objects with the library's own parser (that is how transports deliver them);
items flagged raw are delivered as is (e.g. Python lists for the batch shape).
"""
from __future__ import annotations

import asyncio
import math
from typing import Any, Awaitable, Callable, Dict, List, Optional, Tuple

import anyio
from anyio.streams.memory import MemoryObjectReceiveStream, MemoryObjectSendStream

from .vclock import run_virtual, vnow


class RecordingSend:
    """Recorder around a *real* anyio memory send stream (unbounded): the library gets
    `self.stream`; a drainer task timestamps every item at the virtual instant it was
    written (virtual time cannot advance while the drainer is runnable)."""

    def __init__(self, capacity: float = math.inf, drain_delays: Optional[Dict[int, float]] = None) -> None:
        self.items: List[Tuple[float, Any]] = []
        self.first = asyncio.Event()
        self.on_send: Optional[Callable[[Any], None]] = None
        self.stream, self._recv = anyio.create_memory_object_stream(capacity)
        # drain_delays[i] = virtual seconds the peer waits before it reads item i
        # (models a server that is slow to read its input; only meaningful with a bounded capacity)
        self._delays = drain_delays or {}
        self._task = asyncio.ensure_future(self._drain())

    async def _drain(self) -> None:
        try:
            i = 0
            while True:
                d = self._delays.get(i, 0.0)
                if d > 0:
                    await asyncio.sleep(d)
                item = await self._recv.receive()
                self._note(item)
                i += 1
        except (anyio.ClosedResourceError, anyio.EndOfStream):
            pass

    def stop_reading(self) -> None:
        """the peer reads nothing from now on (with a bounded capacity further writes wait)"""
        self._task.cancel()

    def _note(self, item: Any) -> None:
        self.items.append((vnow(), item))
        self.first.set()
        if self.on_send is not None:
            self.on_send(item)

    async def finish(self) -> None:
        for _ in range(3):
            await asyncio.sleep(0)
        self._task.cancel()
        try:
            await self._task
        except BaseException:
            pass
        while True:
            try:
                self._note(self._recv.receive_nowait())
            except Exception:
                break


def _who() -> str:
    t = asyncio.current_task()
    return t.get_name() if t is not None else "?"


class LoggingReceive(MemoryObjectReceiveStream):  # type: ignore[type-arg]
    """A *real* anyio memory receive stream (isinstance checks and private attributes behave as for the
    streams the transports hand out) that logs every receive with the virtual time and the calling task."""

    def attach(self, log: List[Tuple]) -> "LoggingReceive":
        self._vlog = log
        self._vdepth = 0
        return self

    async def receive(self) -> Any:
        self._vlog.append(("recv_start", vnow(), _who(), None))
        self._vdepth += 1
        try:
            item = await super().receive()
        finally:
            self._vdepth -= 1
        self._vlog.append(("recv", vnow(), _who(), item))
        return item

    def receive_nowait(self) -> Any:
        item = super().receive_nowait()
        if not self._vdepth:
            self._vlog.append(("recv", vnow(), _who(), item))
        return item


class LoggingSend(MemoryObjectSendStream):  # type: ignore[type-arg]
    def attach(self, log: List[Tuple]) -> "LoggingSend":
        self._vlog = log
        self._vdepth = 0
        return self

    async def send(self, item: Any) -> None:
        self._vlog.append(("send", vnow(), _who(), item))
        self._vdepth += 1
        try:
            await super().send(item)
        finally:
            self._vdepth -= 1

    def send_nowait(self, item: Any) -> None:
        if not self._vdepth:
            self._vlog.append(("send", vnow(), _who(), item))
        super().send_nowait(item)


def StreamProxy(inner: Any, log: List[Tuple], role: str) -> Any:
    """logging twin of a memory stream end: shares its state, replaces it (the original end is closed)"""
    cls = LoggingReceive if isinstance(inner, MemoryObjectReceiveStream) else LoggingSend
    twin = cls(_state=inner._state).attach(log)
    inner.close()
    return twin


async def kill_task(task: "asyncio.Future", attempts: int = 40) -> bool:
    """Cancel a task that may swallow cancellations (a cancel that coincides with an anyio
    deadline is absorbed by the scope): retry at odd virtual offsets, then give up."""
    for _ in range(attempts):
        if task.done():
            break
        task.cancel()
        await asyncio.wait([task], timeout=0.0137)
    if task.done():
        try:
            task.exception()
        except BaseException:
            pass
        return True
    return False


def subst(obj: Any, mapping: Dict[str, Any]) -> Any:
    """Fill in the placeholders of a wire template.  Only the two positions that carry protocol
    identifiers are substituted - the message's own `id` ("$ID") and `params.progressToken`
    ("$ID" / "$TOKEN") - never arbitrary strings, so generated payload text that happens to
    equal a placeholder stays what it is."""
    if isinstance(obj, list):
        return [subst(x, mapping) for x in obj]
    if not isinstance(obj, dict):
        return obj
    if "$raw" in obj:
        return {"$raw": subst(obj["$raw"], mapping)}
    out = dict(obj)
    if isinstance(out.get("id"), str) and out["id"] in mapping:
        out["id"] = mapping[out["id"]]
    p = out.get("params")
    if isinstance(p, dict) and isinstance(p.get("progressToken"), str) and p["progressToken"] in mapping:
        out["params"] = dict(p, progressToken=mapping[p["progressToken"]])
    return out


def to_message(wire: Any) -> Any:
    from chuk_mcp.protocol.messages.json_rpc_message import JSONRPCMessage, parse_message

    if isinstance(wire, dict) and wire.get("$form") == "typed":
        # the specific envelope classes (what parse_message falls back to when the unified class rejects a
        # message, and what create_response / create_error_response build)
        import chuk_mcp.protocol.messages.json_rpc_message as J

        w = {k: v for k, v in wire.items() if k != "$form"}
        if "method" in w:
            return (J.JSONRPCRequest if "id" in w else J.JSONRPCNotification).model_validate(w)
        return (J.JSONRPCError if "error" in w else J.JSONRPCResponse).model_validate(w)
    if isinstance(wire, dict) and "$direct" in wire:
        # a message object built directly (bypassing the parser), e.g. an error without 'message'
        return JSONRPCMessage(jsonrpc="2.0", id=wire["id"], error=wire["$direct"])
    return parse_message(wire)


def wire_of(msg: Any) -> Any:
    if isinstance(msg, list):
        return [wire_of(m) for m in msg]
    if isinstance(msg, dict):
        return msg
    return msg.model_dump(exclude_none=True)


class DriveResult:
    def __init__(self) -> None:
        self.outcome: str = ""  # "return" | "raise"
        self.value: Any = None
        self.exc: Optional[BaseException] = None
        self.t_end: float = 0.0
        self.written: List[Tuple[float, Any]] = []  # (t, wire dict)
        self.written_raw: List[Tuple[float, Any]] = []
        self.delivered: List[Tuple[float, Any]] = []  # (t, wire) actually put on the read stream
        self.delivered_idx: List[int] = []  # index into `schedule` of each delivered item, in delivery order
        self.req_id: Any = None
        self.token: Any = None
        self.extra: Dict[str, Any] = {}
        self.events: List[Tuple] = []  # ("send"|"recv_start"|"recv", t, task name, item)
        self.inject: Optional[Callable[[Any], None]] = None  # put an object on the read stream now


def drive(
    call: Callable[[Any, Any], Awaitable[Any]],
    schedule: List[Tuple[float, Any]],
    *,
    raw_items: bool = False,
    side: Optional[Callable[[DriveResult, RecordingSend], Awaitable[None]]] = None,
    wait_first_write: bool = True,
    settle: float = 0.0,
    max_vtime: float = 3600.0,
    write_capacity: float = math.inf,
    drain_delays: Optional[Dict[int, float]] = None,
) -> DriveResult:
    """schedule: list of (t, wire_template).  A template that is a dict with key "$raw"
    is delivered as the Python object under that key (after substitution) without parsing."""
    res = DriveResult()

    async def main() -> None:
        send, recv = anyio.create_memory_object_stream(math.inf)
        rec = RecordingSend(write_capacity, drain_delays)
        res.inject = send.send_nowait

        mapping: Dict[str, Any] = {"$ID": None, "$TOKEN": None}
        loop = asyncio.get_running_loop()
        entries = [(e[0], e[1], e[2] if len(e) > 2 else 0, i) for i, e in enumerate(schedule)]

        def deliver(tmpl: Any, idx: int) -> None:
            if isinstance(tmpl, dict) and isinstance(tmpl.get("id"), str) and tmpl["id"].startswith("$IDOF:"):
                # the id the library itself chose for the request with that method (known once it has been written)
                for _t, it in rec.items:
                    w0 = wire_of(it)
                    if isinstance(w0, dict) and w0.get("method") == tmpl["id"][6:] and "id" in w0:
                        tmpl = dict(tmpl, id=w0["id"])
                        break
            wire = subst(tmpl, mapping)
            if isinstance(wire, dict) and "$raw" in wire:
                item = wire["$raw"]
                if isinstance(item, list):
                    item = [to_message(x) for x in item]
            else:
                item = wire if raw_items else to_message(wire)
            send.send_nowait(item)
            res.delivered.append((vnow(), wire))
            res.delivered_idx.append(idx)

        # An entry may carry a third member, the *phase* within its instant (which of the events of one
        # virtual instant comes first is part of the schedule):
        #   0 (default) the feeder task wakes at t and sends (its timer was armed after the call's deadline);
        #   n > 0       it first lets the other runnable tasks run n times;
        #  -1           sent from a loop timer armed just before t;
        #  -2           sent from a loop timer armed when the request has been written;
        #  -3           sent by a task of its own whose timer was armed before the call started, i.e. before
        #               the call armed its deadline: at t this task runs before the cancelled caller does.
        async def early(t: float, tmpl: Any, idx: int) -> None:
            await asyncio.sleep(t)
            deliver(tmpl, idx)

        etasks = [asyncio.ensure_future(early(t, tmpl, idx)) for t, tmpl, ph, idx in entries if ph == -3 and t > 0]
        handled = {idx for t, tmpl, ph, idx in entries if ph == -3 and t > 0}
        #  -4           sent from a loop timer armed before the call started: at t it fires before every timer the
        #               call armed for the same instant (a poll window's or the deadline's), and hands the item to
        #               the receiver that is still blocked
        for t, tmpl, ph, idx in entries:
            if ph == -4 and t > 0:
                loop.call_at(t, deliver, tmpl, idx)
                handled.add(idx)
        if etasks:
            await asyncio.sleep(0)  # let them arm their timers

        async def feeder() -> None:
            if wait_first_write:
                await rec.first.wait()
                first = rec.items[0][1]
                w = wire_of(first)
                res.req_id = w.get("id") if isinstance(w, dict) else None
                try:
                    res.token = w["params"]["_meta"]["progressToken"]
                except Exception:
                    res.token = None
            mapping.update({"$ID": res.req_id, "$TOKEN": res.token})
            for t, tmpl, ph, idx in entries:
                if ph == -2 and t > vnow() and idx not in handled:
                    loop.call_at(t, deliver, tmpl, idx)
                    handled.add(idx)
            for t, tmpl, ph, idx in sorted(entries, key=lambda x: x[0]):
                if idx in handled:
                    continue
                if ph == -1 and t - vnow() > 0.004:
                    await asyncio.sleep(t - vnow() - 0.004)
                    loop.call_at(t, deliver, tmpl, idx)
                    continue
                dt = t - vnow()
                if dt > 0:
                    await asyncio.sleep(dt)
                for _y in range(max(ph, 0)):
                    await asyncio.sleep(0)
                deliver(tmpl, idx)

        ftask = asyncio.ensure_future(feeder())
        stask = asyncio.ensure_future(side(res, rec)) if side is not None else None
        try:
            ctask = asyncio.ensure_future(call(StreamProxy(recv, res.events, 'read'), StreamProxy(rec.stream, res.events, 'write')))
            done, _ = await asyncio.wait([ctask], timeout=max_vtime + 0.1237)
            if not done:
                # watchdog: the call did not end within max_vtime virtual seconds
                await kill_task(ctask)
                res.outcome = "hang"
            else:
                res.value = ctask.result()
                res.outcome = "return"
        except BaseException as e:  # noqa
            if isinstance(e, (KeyboardInterrupt, SystemExit)):
                raise
            res.outcome = "raise"
            res.exc = e
        res.t_end = vnow()
        if settle > 0:
            await asyncio.sleep(settle)
        for tk in [ftask, stask] + etasks:
            if tk is not None:
                await kill_task(tk)
        await rec.finish()
        res.written_raw = list(rec.items)
        res.written = [(t, wire_of(m)) for t, m in rec.items]
        if res.req_id is None and res.written:
            w = res.written[0][1]
            res.req_id = w.get("id") if isinstance(w, dict) else None

    run_virtual(main)
    return res
