"""Logging configuration as a case dimension: an application that calls ``logging.basicConfig(level=logging.DEBUG)``
must see the same protocol behaviour as one that leaves logging alone.  ``debug_logging(True)`` puts the root logger and
the package logger at DEBUG with an ordinary StreamHandler (records are formatted, the text is discarded) for the
duration of one case and restores the previous configuration afterwards."""
from __future__ import annotations

import contextlib
import logging
from typing import Iterator


class _Sink:
    def write(self, s: str) -> int:
        return len(s)

    def flush(self) -> None:
        pass


@contextlib.contextmanager
def debug_logging(on: bool = True) -> Iterator[None]:
    if not on:
        yield
        return
    root = logging.getLogger()
    pkg = logging.getLogger("chuk_mcp")
    old = (root.level, pkg.level, pkg.propagate, logging.raiseExceptions, root.manager.disable)
    logging.disable(logging.NOTSET)  # the harness normally runs with logging switched off altogether
    h = logging.StreamHandler(_Sink())
    h.setLevel(logging.DEBUG)
    h.setFormatter(logging.Formatter("%(asctime)s %(name)s %(levelname)s %(message)s"))
    others = list(root.handlers)  # (logging.debug() on an unconfigured root logger installs a stderr handler: keep it quiet)
    root.handlers[:] = [h]
    root.setLevel(logging.DEBUG)
    pkg.setLevel(logging.DEBUG)
    logging.raiseExceptions = False  # a record that cannot be formatted is the logging module's business, not the caller's
    try:
        yield
    finally:
        root.handlers[:] = others + [x for x in root.handlers if x is not h and x not in others]
        root.setLevel(old[0])
        pkg.setLevel(old[1])
        pkg.propagate = old[2]
        logging.raiseExceptions = old[3]
        logging.disable(old[4])


def install(mod, every: int = 4) -> None:
    """Make the logging configuration a dimension of EVERY check: wrap `mod.check` so that a case flagged `debug_log`
    runs under `debug_logging`, and flag every `every`-th case that does not say (the flag is written into the case, so
    the recorded / replayed case reproduces it).  Jobs call `check` through the module global, so enumerated cases get
    it too.  Deterministic: a per-process call counter, no randomness."""
    if getattr(mod, "_logmode_installed", False) or getattr(mod, "LOGMODE", "auto") == "off":
        return
    inner = mod.check
    counter = {"n": 0}

    def check(case):  # type: ignore[no-untyped-def]
        if not isinstance(case, dict):
            return inner(case)
        if "debug_log" not in case:
            counter["n"] += 1
            if counter["n"] % every == 0:
                case["debug_log"] = True
        if not case.get("debug_log"):
            return inner(case)
        with debug_logging(True):
            out = inner(case)
        try:
            if "logging:DEBUG" not in tuple(out.classes):
                out.classes = tuple(out.classes) + ("logging:DEBUG",)
        except Exception:
            pass
        return out

    check.__wrapped__ = inner  # type: ignore[attr-defined]
    mod.check = check
    mod._logmode_installed = True
