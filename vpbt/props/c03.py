"""C03 - client initialization never settles on a protocol version it did not offer."""
from __future__ import annotations

import itertools
from typing import Any, Dict, List, Optional

from hypothesis import strategies as st

from ..drive import drive
from ..jsonrpc_ref import classify, strict_eq
from ..runner import Collector, Outcome, hyp_run, hyp_shrink

ID = "C03"
LEVEL = "exploration"
RULE = (
    "case = (ordered supported-version list, preferred version, server answer, #notifications before the answer, tracked client or not, optionally a slow-reading server or a second handshake of the same process overlapping on another connection; sequences of 2..3 handshakes over one connection); "
    "enumerated exhaustively: all 258 non-empty lists of length<=3 (duplicates allowed) over a universe of 3 real + 3 invented versions x 8 preferred "
    "values (each universe member, None, '') x every answer class (each universe member, an unsupported well-formed date, 6 malformed results, "
    "JSON-RPC errors of each named code incl. -32602 with/without 'protocol version' text, silence); Hypothesis adds longer lists and arbitrary version strings; "
    "oracle = reference negotiation function; non-trivial = preferred not in list, or answer != proposed, or any failure outcome; distinct = distinct full case"
    "; added in rounds 6-7 of the seeded changes: one caller-owned version list handed to consecutive handshakes (list unchanged, proposals follow its original order)"
)
ASSUMPTIONS = [
    "virtual clock; server answer scripted on the read stream through the library's own parser",
    "the batching mode belonging to a well-formed version v is (v < '2025-06-18') (date order); for non-date strings only that a mode is set consistently with the library's own decision function",
]
EXHAUSTIVE = {"quick": True, "thorough": True}
META = {
    "text": "Complete enumeration of the configuration product (list x preferred x answer) on the virtual clock, plus seeded longer lists / odd strings; decides the negotiation outcome, the proposed version, the count and timing of the initialized notification and the tracked batching mode for every enumerated configuration.",
    "technique": "bounded-exhaustive configuration product + Hypothesis; oracle = reference negotiation function",
}

UNIVERSE = ["2025-06-18", "2025-03-26", "2024-11-05", "2026-01-01", "1999-12-31", "draft"]
T = 1.0
T_ANS = 0.2


def proposed_ref(L: List[str], preferred: Optional[str]) -> str:
    return preferred if preferred and preferred in L else L[0]


def good_result(v: Any) -> Dict[str, Any]:
    return {"protocolVersion": v, "capabilities": {"tools": {"listChanged": True}}, "serverInfo": {"name": "srv", "version": "1"}}


def build_answer(ans: Dict[str, Any]) -> Optional[Dict[str, Any]]:
    k = ans["kind"]
    if k == "version":
        return {"jsonrpc": "2.0", "id": "$ID", "result": good_result(ans["v"])}
    if k == "malformed":
        w = ans["what"]
        r = good_result("2025-06-18")
        if w == "missing_version":
            del r["protocolVersion"]
        elif w == "int_version":
            r["protocolVersion"] = 20250618
        elif w == "null_version":
            r["protocolVersion"] = None
        elif w == "list_version":
            r["protocolVersion"] = ["2025-06-18"]
        elif w == "missing_serverInfo":
            del r["serverInfo"]
        elif w == "missing_capabilities":
            del r["capabilities"]
        elif w == "empty_result":
            r = {}
        return {"jsonrpc": "2.0", "id": "$ID", "result": r}
    if k == "error":
        return {"jsonrpc": "2.0", "id": "$ID", "error": {"code": ans["code"], "message": ans.get("message", "nope")}}
    return None


def check(case: Dict[str, Any]) -> Outcome:
    from chuk_mcp.protocol.messages.initialize.send_messages import send_initialize, send_initialize_with_client_tracking
    from chuk_mcp.protocol.types.errors import VersionMismatchError

    if case.get("repeat"):
        return check_repeat(case)
    out = Outcome()
    L: List[str] = list(case["supported"])
    preferred = case.get("preferred")
    ans = case["answer"]
    tracked = case.get("tracked", False)
    pre = case.get("pre_notifs", 0)

    client = None
    if tracked:
        from chuk_mcp.transports.stdio.parameters import StdioParameters
        from chuk_mcp.transports.stdio.stdio_client import StdioClient

        client = StdioClient(StdioParameters(command="/bin/true", args=[]))

    async def call(r, w):
        if tracked:
            return await send_initialize_with_client_tracking(r, w, client=client, timeout=T, supported_versions=list(L), preferred_version=preferred)
        return await send_initialize(r, w, timeout=T, supported_versions=list(L), preferred_version=preferred)

    schedule = []
    for i in range(pre):
        schedule.append((0.1, {"jsonrpc": "2.0", "method": "notifications/message", "params": {"level": "info", "data": i}}))
    wire = build_answer(ans)
    if wire is not None:
        schedule.append((T_ANS, wire))
    peer = case.get("peer")
    peer_out: Dict[str, Any] = {}
    side = None
    if peer:
        # another connection of the same process performs its own handshake while this one waits for its answer
        async def side(res_, rec_):  # type: ignore[no-redef]
            import asyncio as _a

            import anyio as _anyio

            await _a.sleep(peer["start"])
            s_send, s_recv = _anyio.create_memory_object_stream(100)  # server -> client B
            c_send, c_recv = _anyio.create_memory_object_stream(100)  # client B -> server
            LB = list(peer["supported"])

            async def responder():
                from chuk_mcp.protocol.messages.json_rpc_message import parse_message

                req_ = await c_recv.receive()
                w_ = req_.model_dump(exclude_none=True)
                await _a.sleep(0.02)
                await s_send.send(parse_message({"jsonrpc": "2.0", "id": w_["id"], "result": good_result(w_["params"]["protocolVersion"])}))
                while True:
                    await c_recv.receive()

            rt = _a.ensure_future(responder())
            try:
                rb = await send_initialize(s_recv, c_send, timeout=T, supported_versions=LB, preferred_version=peer.get("preferred"))
                peer_out["returned"] = getattr(rb, "protocolVersion", None)
            except BaseException as e_:  # noqa
                peer_out["raised"] = e_
                if isinstance(e_, _a.CancelledError):
                    raise
            finally:
                rt.cancel()

    slow = case.get("slow_reader")
    if peer:
        res = drive(call, schedule, side=side, max_vtime=T + 10)
    elif slow:
        # the server reads the initialize request at once but is slow to read what follows
        # (unbuffered client->server stream, anyio's default capacity)
        res = drive(call, schedule, max_vtime=T + slow + 10, write_capacity=0, drain_delays={1: T_ANS + slow})
    else:
        res = drive(call, schedule, max_vtime=T + 10)

    prop = proposed_ref(L, preferred)
    v = ans.get("v") if ans["kind"] == "version" else None
    success_expected = ans["kind"] == "version" and v in L
    out.nontrivial = (preferred not in L) or (ans["kind"] != "version") or (v != prop)
    out.classes = (
        f"answer:{ans['kind']}" + (":" + ("in-list" if v in L else "not-in-list") if ans["kind"] == "version" else ""),
        "preferred:" + ("none" if not preferred else ("in-list" if preferred in L else "not-in-list")),
        "tracked" if tracked else "untracked",
    ) + (("slow-reader",) if case.get("slow_reader") else ()) + (("overlapping-handshake",) if peer else ())
    if peer:
        want_b = proposed_ref(list(peer["supported"]), peer.get("preferred"))
        import asyncio as _a2

        ended = "returned" in peer_out or ("raised" in peer_out and not isinstance(peer_out["raised"], _a2.CancelledError))
        # (the harness stops the second handshake when the first one ends; only a finished one is judged)
        if ended and peer_out.get("returned") != want_b:
            out.fail("overlapping-handshake-on-another-connection-disturbed", f"peer list {peer['supported']} should settle on {want_b!r}: {peer_out!r}")

    # ---- the request
    writes = res.written
    reqs = [(t, w) for t, w in writes if isinstance(w, dict) and w.get("method") == "initialize"]
    inits = [(t, w) for t, w in writes if isinstance(w, dict) and w.get("method") == "notifications/initialized"]
    other = [w for _, w in writes if isinstance(w, dict) and w.get("method") not in ("initialize", "notifications/initialized")]
    if len(reqs) != 1:
        out.fail("not-exactly-one-initialize-request", repr(writes))
        return out
    req = reqs[0][1]
    if classify(req)[0] != "request":
        out.fail("initialize-request-invalid", repr(req))
    pv = (req.get("params") or {}).get("protocolVersion")
    if not strict_eq(pv, prop):
        out.fail("proposed-version-differs-from-reference", f"L={L} preferred={preferred!r}: proposed {pv!r}, reference {prop!r}")
    if other:
        out.fail("unexpected-message-written", repr(other))

    # ---- outcome
    if success_expected:
        if res.outcome != "return":
            out.fail("supported-answer-rejected", f"L={L} answer={v!r}: {type(res.exc).__name__}: {res.exc}")
            return out
        rv = getattr(res.value, "protocolVersion", None)
        if not strict_eq(rv, v):
            out.fail("returned-version-differs-from-answer", f"answer {v!r} returned {rv!r}")
        if len(inits) != 1:
            out.fail("initialized-notification-count-on-success", f"{len(inits)} notifications: {inits!r}")
        else:
            t_n, n = inits[0]
            if classify(n)[0] != "notification":
                out.fail("initialized-notification-invalid", repr(n))
            if t_n < T_ANS - 1e-9 or t_n > res.t_end + 1e-9:
                out.fail("initialized-notification-not-between-answer-and-return", f"t={t_n} answer at {T_ANS} return at {res.t_end}")
            # must be written after the request, in order
            idx_req = next(i for i, (_, w) in enumerate(writes) if w is req)
            idx_n = next(i for i, (_, w) in enumerate(writes) if w is n)
            if idx_n < idx_req:
                out.fail("initialized-notification-before-request", repr(writes))
        if tracked:
            info = client.get_batching_info()
            if info.get("protocol_version") != v:
                out.fail("tracked-client-version-differs", f"answer {v!r} tracked {info!r}")
            wellformed = len(v) == 10 and v[4] == "-" and v[7] == "-" and (v[:4] + v[5:7] + v[8:]).isdigit()
            if wellformed:
                if info.get("batching_enabled") is not (v < "2025-06-18"):
                    out.fail("tracked-client-batching-mode-wrong", f"version {v!r}: {info!r}")
            elif info.get("batching_enabled") is not info.get("supports_batch_function"):
                out.fail("tracked-client-batching-mode-inconsistent", f"version {v!r}: {info!r}")
    else:
        if res.outcome == "return":
            if ans["kind"] == "version":
                out.fail("settled-on-version-not-offered", f"L={L} answer={v!r} accepted; returned {getattr(res.value, 'protocolVersion', None)!r}")
            else:
                out.fail("initialize-returned-on-failure-answer", f"answer={ans!r} returned {res.value!r}")
        elif res.outcome == "hang":
            out.fail("initialize-never-ended", repr(ans))
        else:
            if ans["kind"] == "version" and not isinstance(res.exc, VersionMismatchError):
                out.fail("unsupported-answer-not-version-mismatch", f"{type(res.exc).__name__}: {res.exc}")
            if ans["kind"] == "silence":
                if not isinstance(res.exc, TimeoutError):
                    out.fail("silence-not-timeout", f"{type(res.exc).__name__}: {res.exc}")
                elif abs(res.t_end - T) > 1e-6:
                    out.fail("timeout-at-wrong-instant", f"{res.t_end}")
        if inits:
            out.fail("initialized-notification-sent-on-failure", f"answer={ans!r}: {inits!r}")
        if tracked and client.get_batching_info().get("protocol_version") is not None:
            out.fail("tracked-client-version-set-on-failure", repr(client.get_batching_info()))
    return out


def check_repeat(case: Dict[str, Any]) -> Outcome:
    """several handshakes one after the other over the SAME connection (re-negotiation): each successful one must put
    exactly one initialized notification on the wire, after its own answer; a failed one none."""
    import asyncio

    from chuk_mcp.protocol.messages.initialize.send_messages import send_initialize
    from chuk_mcp.protocol.messages.json_rpc_message import parse_message
    from chuk_mcp.protocol.types.errors import VersionMismatchError

    out = Outcome()
    rounds: List[Dict[str, Any]] = case["repeat"]  # [{supported, preferred, answer}]
    outcomes: List[Any] = []
    marks: List[int] = []  # number of messages written when each round ended

    async def side(res_, rec_):
        n_req = {"n": 0}

        def on_send(item):
            w = item.model_dump(exclude_none=True) if hasattr(item, "model_dump") else item
            if isinstance(w, dict) and w.get("method") == "initialize":
                k = n_req["n"]
                n_req["n"] += 1
                ans = rounds[k]["answer"] if k < len(rounds) else {"kind": "silence"}
                wire = build_answer(ans if ans["kind"] != "late" else {"kind": "version", "v": ans["v"]})
                if wire is not None:
                    wire = dict(wire, id=w["id"])
                    # "late": the server does answer, but only after the client has given up - the answer then
                    # arrives while the NEXT handshake on this connection is waiting for its own
                    asyncio.get_running_loop().call_later(T + 0.05 if ans["kind"] == "late" else T_ANS, res_.inject, parse_message(wire))

        rec_.on_send = on_send
        await asyncio.sleep(3600)

    holder: Dict[str, Any] = {}

    # an application keeps ONE list of the versions it supports and hands it to every handshake: with `shared_list` all
    # rounds receive the same list object (its content is that of the first round)
    shared: Optional[List[str]] = list(rounds[0]["supported"]) if case.get("shared_list") else None
    shared_before = list(shared) if shared is not None else None
    if shared is not None:
        rounds = [dict(rd, supported=list(shared_before)) for rd in rounds]

    async def call(r, w):
        for rd in rounds:
            try:
                v = await send_initialize(r, w, timeout=T, supported_versions=shared if shared is not None else list(rd["supported"]), preferred_version=rd.get("preferred"))
                outcomes.append(("return", getattr(v, "protocolVersion", None)))
            except Exception as e:  # noqa
                outcomes.append(("raise", e))
            await asyncio.sleep(0.01)
            marks.append(holder["rec"]())
        return None

    def grab(res_, rec_):
        holder["rec"] = lambda: len(rec_.items)
        return side(res_, rec_)

    res = drive(call, [], side=grab, max_vtime=len(rounds) * (T + 1) + 10)
    out.nontrivial = True
    out.classes = ("repeated-handshake", f"rounds:{len(rounds)}") + (("one-list-object-for-all-rounds",) if shared is not None else ())
    if shared is not None and shared != shared_before:
        out.fail("callers-version-list-modified", f"the list handed to send_initialize was {shared_before!r} and is {shared!r} after {len(rounds)} handshake(s)")
    if res.outcome != "return" or len(outcomes) != len(rounds):
        out.fail("repeated-handshake-did-not-finish", f"{res.outcome} {res.exc!r} outcomes={outcomes!r}")
        return out
    writes = [w for _, w in res.written]
    lo = 0
    for k, (rd, oc, hi) in enumerate(zip(rounds, outcomes, marks)):
        seg = writes[lo:hi]
        lo = hi
        inits = [w for w in seg if isinstance(w, dict) and w.get("method") == "notifications/initialized"]
        reqs = [w for w in seg if isinstance(w, dict) and w.get("method") == "initialize"]
        L = list(rd["supported"])
        ans = rd["answer"]
        ok_expected = ans["kind"] == "version" and ans["v"] in L
        if ans["kind"] == "late" and not isinstance(oc[1], TimeoutError):
            out.fail("silence-not-timeout", f"round {k}: the answer came after the deadline, outcome {oc!r}")
            return out
        if len(reqs) != 1:
            out.fail("not-exactly-one-initialize-request", f"round {k}: {seg!r}")
            return out
        want_prop = proposed_ref(L, rd.get("preferred"))
        got_prop = (reqs[0].get("params") or {}).get("protocolVersion")
        if got_prop != want_prop:
            out.fail("proposed-version-differs-from-the-callers-choice", f"round {k}: list {L!r} preferred {rd.get('preferred')!r}: proposed {got_prop!r}, documented choice {want_prop!r} (earlier rounds: {[(r_['preferred']) for r_ in rounds[:k]]!r})")
            return out
        if ok_expected:
            if oc[0] != "return" or oc[1] != ans["v"]:
                out.fail("supported-answer-rejected", f"round {k} of a re-negotiation: {oc!r}")
                return out
            if len(inits) != 1:
                out.fail("initialized-notification-count-on-success", f"round {k} of {len(rounds)} on the same connection: {len(inits)} notifications (earlier rounds: {outcomes[:k]!r})")
                return out
        else:
            if oc[0] == "return":
                out.fail("settled-on-version-not-offered", f"round {k}: L={L} answer={ans!r} returned {oc[1]!r}")
                return out
            if ans["kind"] == "version" and not isinstance(oc[1], VersionMismatchError):
                out.fail("unsupported-answer-not-version-mismatch", f"round {k}: {oc[1]!r}")
            if inits:
                out.fail("initialized-notification-sent-on-failure", f"round {k}: {inits!r}")
                return out
    return out


def all_lists() -> List[List[str]]:
    out = []
    for n in (1, 2, 3):
        for combo in itertools.product(UNIVERSE, repeat=n):
            out.append(list(combo))
    return out


PREFERRED = UNIVERSE + [None, ""]
MALFORMED = ["missing_version", "int_version", "null_version", "list_version", "missing_serverInfo", "missing_capabilities", "empty_result"]
ERRORS = [(-32700, "x"), (-32600, "x"), (-32601, "x"), (-32602, "Unsupported protocol version: x"), (-32602, "bad params"), (-32603, "x"),
          (-32000, "x"), (-32001, "x"), (-32002, "x"), (-32008, "Protocol Version mismatch"), (401, "auth"), (0, "zero")]


def all_answers() -> List[Dict[str, Any]]:
    a: List[Dict[str, Any]] = [{"kind": "version", "v": v} for v in UNIVERSE + ["2025-06-19", "2025-6-18", ""]]
    a += [{"kind": "malformed", "what": w} for w in MALFORMED]
    a += [{"kind": "error", "code": c, "message": m} for c, m in ERRORS]
    a.append({"kind": "silence"})
    return a


def job_enum(col: Collector, seed: int, tier: str, shard: int, nshards: int) -> None:
    i = 0
    lists = all_lists()
    answers = all_answers()
    for L in lists:
        for p in PREFERRED:
            for ai, ans in enumerate(answers):
                i += 1
                if i % nshards != shard:
                    continue
                case = {"supported": L, "preferred": p, "answer": ans, "pre_notifs": (i // nshards) % 3, "tracked": (i // nshards) % 2 == 0}
                if (i // nshards) % 7 == 0:
                    case["slow_reader"] = [0.3, 1.5, 4.0][(i // nshards) % 3]
                col.record(case, check(case))
    if shard == 0:
        col.exhaustive_parts.append(f"{len(lists)} lists x {len(PREFERRED)} preferred x {len(answers)} answers = {len(lists) * len(PREFERRED) * len(answers)} configurations (tracked/untracked and 0..2 leading notifications rotated)")


_ver = st.one_of(
    st.sampled_from(UNIVERSE + ["2025-06-17", "2025-06-19", "2025-6-18", "2025-06-18 ", " 2025-06-18", "２０２５-06-18", "", "2025-06-18\n"]),
    st.from_regex(r"[0-9]{4}-[0-9]{2}-[0-9]{2}", fullmatch=True),
    st.text(max_size=12),
)


@st.composite
def cases(draw):
    L = draw(st.lists(_ver, min_size=1, max_size=6))
    preferred = draw(st.one_of(st.none(), _ver, st.sampled_from(L)))
    k = draw(st.sampled_from(["version", "version", "version", "malformed", "error", "silence"]))
    if k == "version":
        ans: Dict[str, Any] = {"kind": "version", "v": draw(st.one_of(_ver, st.sampled_from(L)))}
    elif k == "malformed":
        ans = {"kind": "malformed", "what": draw(st.sampled_from(MALFORMED))}
    elif k == "error":
        ans = {"kind": "error", "code": draw(st.integers(-33000, 500)), "message": draw(st.sampled_from(["x", "protocol version?", "Unsupported Protocol Version"]))}
    else:
        ans = {"kind": "silence"}
    case = {"supported": L, "preferred": preferred, "answer": ans, "pre_notifs": draw(st.integers(0, 3)), "tracked": draw(st.booleans())}
    if draw(st.integers(0, 3)) == 0:
        case["slow_reader"] = draw(st.sampled_from([0.3, 0.99, 1.0, 1.5, 4.0]))
    elif draw(st.integers(0, 3)) == 0:
        case["peer"] = {"supported": draw(st.lists(_ver, min_size=1, max_size=3)), "preferred": draw(st.one_of(st.none(), _ver)), "start": draw(st.sampled_from([0.0, 0.05, 0.1, 0.19]))}
    return case


def job_hyp(col: Collector, seed: int, tier: str, shard: int, n: int) -> None:
    hyp_run(col, seed * 1000 + shard, cases(), check, n)


def job_overlap(col: Collector, seed: int, tier: str) -> None:
    """two handshakes of one process overlapping in time on different connections: every list of length<=2 for the
    first x every single-version list for the second x the first's server answering {its proposal, the second's proposal}."""
    n = 0
    for L in [l for l in all_lists() if len(l) <= 2]:
        for vb in UNIVERSE:
            for which in ("own", "peers"):
                n += 1
                if tier == "quick" and n % 3:
                    continue
                ans = {"kind": "version", "v": proposed_ref(L, None) if which == "own" else vb}
                case = {"supported": L, "preferred": None, "answer": ans, "pre_notifs": 0, "tracked": bool(n % 2), "peer": {"supported": [vb], "start": 0.05 if n % 4 else 0.1}}
                col.record(case, check(case))
    if tier != "quick":
        col.exhaustive_parts.append("overlapping handshakes: 42 lists (length<=2) x 6 peer versions x answer in {own proposal, the peer's proposal}")


def job_repeat(col: Collector, seed: int, tier: str) -> None:
    """all sequences of 2 (and, in thorough, 3) handshakes over one connection from a 7-round alphabet"""
    alpha = [
        {"supported": ["2025-06-18", "2025-03-26"], "preferred": None, "answer": {"kind": "version", "v": "2025-06-18"}},
        {"supported": ["2025-06-18", "2025-03-26"], "preferred": "2025-03-26", "answer": {"kind": "version", "v": "2025-06-18"}},
        {"supported": ["2024-11-05"], "preferred": None, "answer": {"kind": "version", "v": "2025-06-18"}},  # mismatch
        {"supported": ["draft", "2025-03-26"], "preferred": "draft", "answer": {"kind": "version", "v": "2025-03-26"}},
        {"supported": ["2025-06-18"], "preferred": None, "answer": {"kind": "error", "code": -32603, "message": "x"}},
        {"supported": ["2025-06-18"], "preferred": None, "answer": {"kind": "silence"}},
        {"supported": ["2025-06-18", "2025-03-26"], "preferred": None, "answer": {"kind": "late", "v": "2025-03-26"}},
    ]
    for L in ((2,) if tier == "quick" else (2, 3)):
        for combo in itertools.product(range(len(alpha)), repeat=L):
            case = {"repeat": [alpha[i] for i in combo]}
            col.record(case, check(case))
    # one list object handed to every round; the preference changes from round to round; the server echoes the proposal
    for L_ in (["2025-06-18", "2025-03-26", "2024-11-05"], ["2025-03-26", "2025-06-18"], ["2025-06-18", "draft", "2024-11-05"]):
        prefs = L_ + [None, "2099-01-01", ""]
        for p1 in prefs:
            for p2 in prefs:
                for p3 in (None, L_[-1]):
                    rds = [{"supported": L_, "preferred": p_, "answer": {"kind": "version", "v": proposed_ref(L_, p_)}} for p_ in (p1, p2, p3)]
                    case = {"repeat": rds, "shared_list": True}
                    col.record(case, check(case))
    col.exhaustive_parts.append("one caller-owned version list handed to 3 consecutive handshakes x every sequence of preferences (each member, none, unsupported, empty) on 3 lists")
    col.exhaustive_parts.append("re-negotiation: all sequences of 2 (thorough: and 3) handshakes over one connection from a 7-round alphabet (success, counter-proposal, mismatch, error, silence, answer arriving after the deadline)")


JOBS = {"enum": job_enum, "hyp": job_hyp, "overlap": job_overlap, "repeat": job_repeat}


def jobs(tier: str):
    if tier == "quick":
        return [("enum", {"shard": s, "nshards": 15}) for s in range(15)] + [("hyp", {"shard": 0, "n": 500}), ("overlap", {}), ("repeat", {})]
    return [("enum", {"shard": s, "nshards": 16}) for s in range(16)] + [("hyp", {"shard": s, "n": 2500}) for s in range(8)] + [("overlap", {}), ("repeat", {})]


def shrink(signature: str, seed: int):
    return hyp_shrink(seed * 1000, cases(), check, signature, 2000)
